#[cfg(test)]
mod verif_f1_probe {
    use super::*;
    use revm_state::AccountStatus as JAccountStatus;
    use std::sync::{Mutex, mpsc};

    struct SlowDb {
        started: Mutex<mpsc::Sender<()>>,
        resume: Mutex<mpsc::Receiver<()>>,
    }
    impl DatabaseRef for SlowDb {
        type Error = core::convert::Infallible;
        fn basic_ref(&self, _a: Address) -> Result<Option<AccountInfo>, Self::Error> {
            Ok(Some(AccountInfo { nonce: 1, ..Default::default() }))
        }
        fn code_by_hash_ref(&self, _h: B256) -> Result<Bytecode, Self::Error> { Ok(Bytecode::default()) }
        fn storage_ref(&self, _a: Address, _i: U256) -> Result<U256, Self::Error> {
            self.started.lock().unwrap().send(()).unwrap();
            self.resume.lock().unwrap().recv().unwrap();
            Ok(U256::from(7))
        }
        fn block_hash_ref(&self, _n: u64) -> Result<B256, Self::Error> { Ok(B256::ZERO) }
    }

    #[test]
    fn stale_slot_survives_concurrent_destroy() {
        let a = Address::with_last_byte(9);
        let (s_tx, s_rx) = mpsc::channel();
        let (r_tx, r_rx) = mpsc::channel();
        let mut state = ParallelState::new(SlowDb { started: Mutex::new(s_tx), resume: Mutex::new(r_rx) }, true, false);
        // account loaded (as a worker would have done)
        state.basic_ref(a).unwrap();
        {
            let (view, mut commit) = state.split_for_parallel();
            std::thread::scope(|scope| {
                let reader = scope.spawn(move || view.storage_ref(a, U256::from(1)).unwrap());
                s_rx.recv().unwrap(); // reader is inside the database fetch
                let mut acc = Account::from(AccountInfo { nonce: 1, ..Default::default() });
                acc.status = JAccountStatus::Touched | JAccountStatus::SelfDestructed;
                let mut st = EvmState::default();
                st.insert(a, acc);
                commit.commit(st); // the owning account is destroyed now
                r_tx.send(()).unwrap();
                let _speculative_value = reader.join().unwrap(); // 7 before the repair, 0 after; either is fine
            });
        }
        // After the destroy, the state must serve zero for every slot of `a` (as revm State does).
        assert_eq!(state.storage_ref(a, U256::from(1)).unwrap(), U256::ZERO, "F1: stale slot served after destroy");
    }
}
