#[test]
fn verif_f2_probe_stale_fatal_error_at_commit_head() {
    use crate::DynParallelPrecompile;
    use revm::precompile::{PrecompileError, PrecompileId, PrecompileOutput};
    use revm_primitives::KECCAK_EMPTY;
    use std::sync::atomic::{AtomicUsize, Ordering};
    use std::time::{Duration, Instant};

    let writer_pc = Address::with_last_byte(0xA1);
    let reader_pc = Address::with_last_byte(0xA2);
    let holder = Address::with_last_byte(0xA3);
    let slot = U256::ZERO;
    let phase = Arc::new(AtomicUsize::new(0)); // 1 = reader did its stale read, 2 = tx0 committed
    let reader_calls = Arc::new(AtomicUsize::new(0));

    fn spin(deadline: Instant, mut c: impl FnMut() -> bool) -> bool {
        while !c() { if Instant::now() >= deadline { return false; } std::thread::yield_now(); }
        true
    }

    let wp = phase.clone();
    let writer = DynParallelPrecompile::new(PrecompileId::Custom("w".into()), move |input| {
        assert!(spin(Instant::now() + Duration::from_secs(5), || wp.load(Ordering::Acquire) >= 1));
        let reservoir = input.reservoir();
        input.state().sstore(holder, slot, U256::from(42))?;
        Ok(PrecompileOutput::new(0, Bytes::new(), reservoir))
    });
    let rp = phase.clone();
    let rc = reader_calls.clone();
    let reader = DynParallelPrecompile::new(PrecompileId::Custom("r".into()), move |input| {
        let invocation = rc.fetch_add(1, Ordering::AcqRel);
        let reservoir = input.reservoir();
        let v = input.state().sload(holder, slot)?.data;
        if invocation == 0 {
            rp.store(1, Ordering::Release);
            assert!(spin(Instant::now() + Duration::from_secs(5), || rp.load(Ordering::Acquire) >= 2));
        }
        if v != U256::from(42) {
            // state-dependent fatal error: in-order execution never sees the old value
            return Err(PrecompileError::Fatal("saw pre-tx0 value".into()).into());
        }
        Ok(PrecompileOutput::new(0, Bytes::new(), reservoir))
    });

    let state = ParallelState::new(EmptyDB::default(), true, false);
    state.insert_account_with_storage(
        holder,
        AccountInfo { nonce: 1, code_hash: KECCAK_EMPTY, code: None, ..Default::default() },
        [(slot, U256::from(7))].into_iter().collect(),
    );
    let tx = |i: u8, target| TxEnv {
        caller: Address::with_last_byte(0x10 + i),
        kind: TxKind::Call(target),
        gas_limit: 200_000,
        gas_price: 0,
        nonce: 0,
        ..Default::default()
    };
    let scheduler = Scheduler::new_with_runtime_config(
        CfgEnv::new_with_spec(SpecId::SHANGHAI),
        BlockEnv { beneficiary: Address::with_last_byte(0xCB), ..Default::default() },
        Arc::new(vec![tx(0, writer_pc), tx(1, reader_pc)]),
        state,
        Some(Arc::new(vec![(writer_pc, writer), (reader_pc, reader)])),
        GrevmConfig { concurrency_level: 2, force_sequential: false, min_parallel_txs: 0, delegated_safety: DelegatedSafetyConfig::disabled() },
    );
    let result = std::thread::scope(|scope| {
        let h = scope.spawn(|| scheduler.execute());
        let ok = spin(Instant::now() + Duration::from_secs(5), || scheduler.scheduler_ctx.committed_idx() >= 1);
        phase.store(2, Ordering::Release);
        if !ok { scheduler.cancel(); }
        assert!(ok, "tx0 never committed while tx1's first attempt was open");
        h.join().unwrap()
    });
    // In-order execution: tx0 stores 42, tx1 reads 42 and succeeds. So execute() must be Ok.
    assert!(result.is_ok(), "F2: execute() returned a stale-read fatal error: {:?}", result.err().map(|e| (e.txid, e.error.to_string())));
}
