"""Rust type strings (as printed in MIR or written in source) -> normalised Ty values."""
import re
from dataclasses import dataclass
from typing import Tuple, Optional, List
from mirparse import split_top, match_paren, find_top


@dataclass(frozen=True)
class Ty:
    kind: str              # path | ref | ptr | tuple | slice | array | closure | fndef | opaque | never | param
    name: str = ""         # path: last segment; closure: full text; opaque: text
    args: Tuple["Ty", ...] = ()
    mut: bool = False
    full: str = ""         # original path without generic args (diagnostics only; not part of identity)

    def key(self) -> str:
        if self.kind == "path":
            return self.name + ("<" + ",".join(a.key() for a in self.args) + ">" if self.args else "")
        if self.kind == "ref":
            return ("&mut " if self.mut else "&") + self.args[0].key()
        if self.kind == "ptr":
            return "*" + self.args[0].key()
        if self.kind == "tuple":
            return "(" + ",".join(a.key() for a in self.args) + ")"
        if self.kind == "slice":
            return "[" + self.args[0].key() + "]"
        if self.kind == "array":
            return "[" + self.args[0].key() + ";" + self.name + "]"
        return self.kind + ":" + self.name

    def __hash__(self):
        return hash(self.key())

    def __eq__(self, o):
        return isinstance(o, Ty) and self.key() == o.key()

    def __str__(self):
        return self.key()


UNIT = Ty("tuple")
_DROP_ARGS = {"RawMutex", "RawRwLock", "RandomState", "Global", "BuildHasherDefault", "DefaultHashBuilder",
              "FbBuildHasher", "FxBuildHasher"}
ALIASES = {
    "AtomicUsize": ("Atomic", ["usize"]), "AtomicBool": ("Atomic", ["bool"]), "AtomicU64": ("Atomic", ["u64"]),
    "AtomicU8": ("Atomic", ["u8"]), "AtomicU32": ("Atomic", ["u32"]),
    "TxId": ("usize", []),
}
_PRIMS = {"usize", "isize", "u8", "u16", "u32", "u64", "u128", "i8", "i16", "i32", "i64", "i128", "bool", "char",
          "str", "f32", "f64"}


def strip_lifetimes(s: str) -> str:
    s = re.sub(r"for<[^>]*>\s*", "", s)
    s = re.sub(r"'[A-Za-z_][A-Za-z0-9_]*\s*,\s*", "", s)   # 'a,
    s = re.sub(r"<'[A-Za-z_][A-Za-z0-9_]*>", "", s)         # <'a>
    s = re.sub(r"&'[A-Za-z_][A-Za-z0-9_]*\s+", "&", s)      # &'a T
    s = re.sub(r",\s*'[A-Za-z_][A-Za-z0-9_]*(?=\s*>)", "", s)
    s = re.sub(r"\s*\+\s*'[A-Za-z_][A-Za-z0-9_]*", "", s)
    return s


def parse_type(s: str, aliases=None) -> Ty:
    s = strip_lifetimes(s.strip())
    return _pt(s, aliases or {})


def _pt(s: str, al) -> Ty:
    s = s.strip()
    if s == "()":
        return UNIT
    if s == "!":
        return Ty("never")
    if s.startswith("&"):
        r = s[1:].lstrip()
        mut = False
        if r.startswith("mut "):
            mut, r = True, r[4:]
        return Ty("ref", args=(_pt(r, al),), mut=mut)
    if s.startswith("*const ") or s.startswith("*mut "):
        r = s[s.index(" ") + 1:]
        return Ty("ptr", args=(_pt(r, al),), mut=s.startswith("*mut"))
    if s.startswith("("):
        end = match_paren(s, 0)
        if end == len(s) - 1:
            parts = [p for p in split_top(s[1:end]) if p]
            return Ty("tuple", args=tuple(_pt(p, al) for p in parts))
    if s.startswith("["):
        end = match_paren(s, 0)
        inner = s[1:end]
        k = find_top(inner, ";")
        if k >= 0:
            return Ty("array", name=inner[k + 1:].strip(), args=(_pt(inner[:k], al),))
        return Ty("slice", args=(_pt(inner, al),))
    if s.startswith("{closure@") or s.startswith("{coroutine@"):
        return Ty("closure", name=s)
    if s.startswith("dyn ") or s.startswith("impl "):
        return Ty("opaque", name=s)
    if s.startswith("fn(") or s.startswith("unsafe fn(") or s.startswith("extern "):
        return Ty("fndef", name=s)
    if s.startswith("<"):
        # qualified path  <T as Trait>::Name  -> opaque associated type
        return Ty("param", name=re.sub(r"\b(?:[a-z_][a-z0-9_]*::)+(?=[A-Z])", "", re.sub(r"\s+", " ", s)))
    # ordinary path with optional generic args on the last segment
    segs = split_top(s, "::")
    last = segs[-1]
    k = last.find("<")
    if k >= 0 and last.endswith(">"):
        nm = last[:k]
        args = [a for a in split_top(last[k + 1:-1]) if a]
    else:
        nm, args = last, []
    # turbofish form  Vec::<T>
    if nm == "" and len(segs) >= 2:
        nm = segs[-2]
    if nm in al:
        return _pt(al[nm] if not args else al[nm], al) if isinstance(al[nm], str) else al[nm]
    if nm in ALIASES and not args:
        a = ALIASES[nm]
        if not a[1] and a[0] in _PRIMS:
            return Ty("path", name=a[0])
        return Ty("path", name=a[0], args=tuple(_pt(x, al) for x in a[1]))
    targs = []
    for a in args:
        a = a.strip()
        if a.startswith("'") or a in _DROP_ARGS or a.split("::")[-1] in _DROP_ARGS:
            continue
        if "=" in a and find_top(a, "=") >= 0 and not a.startswith("{"):
            continue  # associated type binding
        targs.append(_pt(a, al))
    return Ty("path", name=nm, args=tuple(targs), full="::".join(segs[:-1] + [nm]))


def strip_generics(path: str) -> str:
    """'Atomic::<usize>::fetch_max' -> 'Atomic::fetch_max';  '<Vec<T> as Index<usize>>::index' -> '<Vec as Index>::index'."""
    out, depth, i, n = [], 0, 0, len(path)
    s = path
    # qualified form
    if s.startswith("<"):
        end = _match_angle(s, 0)
        inner = s[1:end]
        rest = s[end + 1:]
        k = find_top(inner, " as ")
        if k >= 0:
            a = _base_name(inner[:k])
            b = _base_name(inner[k + 4:])
            return f"<{a} as {b}>" + _strip_angles(rest)
        return f"<{_base_name(inner)}>" + _strip_angles(rest)
    return _strip_angles(s)


def _match_angle(s, i):
    depth = 0
    n = len(s)
    j = i
    while j < n:
        c = s[j]
        if c in "<([{":
            depth += 1
        elif c in ")]}":
            depth -= 1
        elif c == ">" and not (j > 0 and s[j - 1] in "-="):
            depth -= 1
        if depth == 0:
            return j
        j += 1
    raise ValueError("unbalanced angle: " + s)


def _strip_angles(s: str) -> str:
    out, i, n = [], 0, len(s)
    while i < n:
        if s[i] == "<":
            j = _match_angle(s, i)
            i = j + 1
            continue
        if s[i] == "{":   # closure marker in paths: keep '{closure#0}'
            j = match_paren(s, i)
            out.append(s[i:j + 1])
            i = j + 1
            continue
        out.append(s[i])
        i += 1
    r = "".join(out)
    r = r.replace("::::", "::")
    while r.endswith("::"):
        r = r[:-2]
    return r


def _base_name(t: str) -> str:
    t = strip_lifetimes(t.strip())
    if t.startswith("&"):
        return "&" + _base_name(t[1:].lstrip().removeprefix("mut "))
    if t.startswith("(") or t.startswith("[") or t.startswith("{"):
        return t.split("@")[0] if t.startswith("{") else ("tuple" if t.startswith("(") else "slice")
    if t.startswith("<"):
        return "assoc"
    if t.startswith("dyn ") or t.startswith("impl "):
        return t.split("<")[0].split("(")[0].strip()
    t = _strip_angles(t)
    return t.split("::")[-1]


def generic_args(path: str) -> List[str]:
    """All top-level generic argument lists of the LAST path segment(s) in a callee path, as strings."""
    res = []
    i, n = 0, len(path)
    while i < n:
        if path[i] == "<":
            j = _match_angle(path, i)
            res.append(path[i + 1:j])
            i = j + 1
        else:
            i += 1
    return res
