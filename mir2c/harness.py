"""Harness construction (C program around translated functions) and the CBMC driver."""
import json
import os
import re
import subprocess
import time
import hashlib
from typing import List, Dict, Any, Optional

from rtypes import parse_type
from translate import (Translator, Loc as Loc_, TranslateError, ThreadCtx, Loc, VRef, VLoc, VScalar, VAgg, VUnit, SNode, Storage,
                       sub)
import srcdefs

PRELUDE = r"""
typedef unsigned long usize;
typedef unsigned long u64;
typedef long isize;
usize nondet_usize(void);
_Bool nondet_bool(void);
unsigned char nondet_uchar(void);
unsigned char g_gate;   /* (g_gate == 9) is a symbolic FALSE (constrained in main): keeps blocked lock acquisitions symbolic so that symex does not prune mid atomic section */
#ifdef COVERMODE
#define COVER(c) __CPROVER_cover(c)
#else
#define COVER(c) ((void)0)
#endif
"""


class Harness:
    def __init__(self, tr: Translator, name: str, nthreads_hint: int = 8):
        self.tr = tr
        self.name = name
        self.main = ThreadCtx(tr, "main", 0)
        self.threads: List[ThreadCtx] = []
        self.post_lines: List[str] = []
        self.global_extra: List[str] = []
        self.covers: List[str] = []
        self.join_all = True
        self._in_post = False
        tr.cur = self.main
        self.main.storage.declare("unsigned char", "spur_budget", [])
        self.main.emit(f"spur_budget = {tr.cfg.get('spurious_budget', 1)};")
        self.max_tid = nthreads_hint
        self.global_extra.append(f"_Bool g_park_token[{nthreads_hint + 1}];")
        self.global_extra.append("_Bool g_all_notifiers_done;")
        self.global_extra.append("usize g_progress;")
        self.global_extra.append("usize g_parks;")
        self.params = []

    # -- storage ---------------------------------------------------------------------------------
    def shared(self, name: str, ty: str) -> SNode:
        return self.tr.alloc(parse_type(ty), name, [], self.tr.globals)

    def local(self, name: str, ty: str) -> SNode:
        return self.tr.alloc(parse_type(ty), name, [], self.tr.cur.storage)

    def cvar(self, name: str, ctype: str = "usize", shared=True, dims=()) -> str:
        (self.tr.globals if shared else self.tr.cur.storage).declare(ctype, name, list(dims))
        return name

    def param(self, name: str, ctype: str = "usize") -> str:
        """immutable harness input: nondet in main, passed BY VALUE to every thread (no shared-memory events)"""
        self.main.storage.declare(ctype, name, [])
        self.params.append((ctype, name))
        return name

    def freeze(self, node: SNode, path: str, value: str):
        """leaf that never changes after construction (e.g. Vec lengths): replaced by a constant"""
        n = self.nav(node, path)
        while n.kind == "struct" and len(n.fields) == 1:
            n = n.fields[0]
        n.const = value

    def nav(self, node: SNode, path: str) -> SNode:
        if not path:
            return node
        for seg in path.split("."):
            if node.kind == "struct":
                if seg in node.names:
                    node = node.fields[node.names.index(seg)]
                elif seg.isdigit() and int(seg) < len(node.fields):
                    node = node.fields[int(seg)]
                else:
                    raise TranslateError(f"no field {seg} in {node.name} (has {node.names})")
            elif node.kind == "arr":
                if seg == "len":
                    node = node.len
                elif seg in ("e", "elem", "[]"):
                    node = node.elem
                else:
                    raise TranslateError(f"bad array path segment {seg}")
            elif node.kind == "enum":
                if seg in ("d", "discr"):
                    node = node.discr
                else:
                    node = node.variants[node.vindex(seg)][1]
            elif node.kind == "ref":
                if node.target is None:
                    raise TranslateError(f"nav through unset ref {node.name}")
                node = self.nav(node.target, seg)
            else:
                raise TranslateError(f"cannot navigate {seg} in {node.kind} {node.name}")
        return node

    def lv(self, node: SNode, path: str = "", idxs=()) -> str:
        n = self.nav(node, path)
        # newtype chains down to a scalar
        while n.kind == "struct" and len(n.fields) == 1:
            n = n.fields[0]
        if n.kind != "scalar":
            raise TranslateError(f"{node.name}.{path} is not a scalar ({n.kind})")
        idxs = [str(i) for i in idxs]
        if len(idxs) != n.ndims:
            raise TranslateError(f"{n.name}: {len(idxs)} indices for dims {n.dims}")
        if getattr(n, "const", None) is not None:
            return n.const
        return n.name + sub(idxs)

    def variant(self, node: SNode, path: str, vname: str) -> int:
        return self.nav(node, path).vindex(vname)

    # -- code ------------------------------------------------------------------------------------
    def thread(self, name: str) -> ThreadCtx:
        t = ThreadCtx(self.tr, name, len(self.threads) + 1)
        t.storage.declare("unsigned char", "spur_budget", [])
        t.emit(f"spur_budget = {self.tr.cfg.get('spurious_budget', 1)};")
        self.threads.append(t)
        return t

    def enter(self, t: Optional[ThreadCtx]):
        self.tr.cur = t or self.main

    def post(self):
        """switch to emitting code that runs in main after all threads joined"""
        self.tr.cur = self.main
        self._in_post = True
        self.main.lines.append("  /*POST*/")

    def c(self, code: str):
        for ln in code.strip("\n").split("\n"):
            self.tr.emit(ln.strip())

    def assert_(self, cond: str, msg: str):
        self.tr.emit(f'__CPROVER_assert({cond}, "PROP {msg}");')

    def assume(self, cond: str):
        self.tr.emit(f"__CPROVER_assume({cond});")

    def cover(self, cond: str, msg: str):
        self.tr.emit(f'COVER({cond}); /* COVER {msg} */')
        self.covers.append(msg)

    def ref(self, node: SNode, path: str = "", idxs=()) -> VRef:
        n = self.nav(node, path)
        return VRef(n, [str(i) for i in idxs])

    def val(self, expr: str, ctype="usize") -> VScalar:
        return VScalar(expr, ctype)

    def call(self, key: str, args: List[Any], dest: Optional[SNode] = None):
        fn = self.tr.find_fn(key)
        if fn is None:
            raise TranslateError(f"harness root `{key}` not found in the MIR dump")
        self.tr.inline(fn, args, Loc(dest, []) if dest is not None else None)

    # -- rendering -------------------------------------------------------------------------------
    def render(self) -> str:
        out = [PRELUDE]
        out += self.global_extra
        out += self.tr.globals.render()
        n = len(self.threads)
        out.append(f"_Bool g_done[{n + 1}];")
        rounds = self.tr.cfg.get("seq_rounds") if len(self.threads) > 1 else None
        if rounds:
            return self.render_sequentialized(out, rounds)
        if self.tr.cfg.get("inject") and len(self.threads) == 2:
            return self.render_injected(out)
        for t in self.threads:
            out.append(f"void thread_{t.name}({', '.join(f'{ct} {nm}' for ct, nm in self.params) or 'void'}) {{")
            out += t.storage.render("  ")
            out += t.lines
            out.append(f"  __CPROVER_atomic_begin(); g_done[{t.tid}] = 1; __CPROVER_atomic_end();")
            out.append("}")
        out.append("int main(void) {")
        out += self.main.storage.render("  ")
        out.append("  g_gate = nondet_uchar(); __CPROVER_assume(g_gate < 7);")
        pre, post = [], []
        cur = pre
        for ln in self.main.lines:
            if ln.strip() == "/*POST*/":
                cur = post
                continue
            cur.append(ln)
        out += pre
        for t in self.threads:
            if len(self.threads) == 1 and not self.tr.cfg.get("force_async"):
                # a single role: run it synchronously (no partial-order encoding needed)
                out.append(f"  thread_{t.name}({', '.join(nm for _ct, nm in self.params)});")
                continue
            out.append(f"  __CPROVER_ASYNC_{t.tid}: thread_{t.name}({', '.join(nm for _ct, nm in self.params)});")
        if self.threads and self.join_all:
            out.append("  __CPROVER_assume(" + " && ".join(f"g_done[{t.tid}]" for t in self.threads) + ");")
        out += post
        out.append("  return 0;")
        out.append("}")
        return "\n".join(out) + "\n"


    def render_injected(self, out) -> str:
        """Two roles A (first thread) and B (second): A runs as straight-line code; B runs to completion, atomically, at one
        solver-chosen visible operation of A (or before / after A).  This is the context-bounded search A|B|A (two context
        switches), decided exhaustively; harnesses use it in both directions.  Interleavings that split BOTH roles are
        outside this mode's claim."""
        A, B = self.threads
        plist = ', '.join(f'{ct} {nm}' for ct, nm in self.params) or 'void'
        args = ', '.join(nm for _ct, nm in self.params)
        out.append("usize g_inject_at;")
        out.append(f"void thread_{B.name}({plist}) {{")
        out += B.storage.render("  ")
        out += B.lines
        out.append(f"  g_done[{B.tid}] = 1;")
        out.append("}")
        out.append(f"void thread_{A.name}({plist}) {{")
        out += A.storage.render("  ")
        gnames = set(self.tr.globals.names)

        def sections(lines):
            """[(first line index, set of shared globals touched)] for every atomic section"""
            res, i = [], 0
            while i < len(lines):
                if lines[i].lstrip().startswith("__CPROVER_atomic_begin();"):
                    j, text = i, ""
                    while True:
                        text += lines[j] + " "
                        if "__CPROVER_atomic_end();" in lines[j] or j + 1 >= len(lines):
                            break
                        j += 1
                    res.append((i, {w for w in re.findall(r"[A-Za-z_]\w*", text) if w in gnames}))
                    i = j + 1
                else:
                    i += 1
            return res
        fpB = set()
        for _i, fp in sections(B.lines):
            fpB |= fp
        # partial-order reduction: an atomic run of B commutes with every visible operation of A that touches none of the
        # shared objects B touches, so B only needs to be injected right before the operations of A that do.
        points = {i for i, fp in sections(A.lines) if fp & fpB}
        k = 0
        first = True
        for i, ln in enumerate(A.lines):
            if ln.lstrip().startswith("__CPROVER_atomic_begin();") and (i in points or first):
                first = False
                k += 1
                out.append(f"  if (g_inject_at == {k}) {{ thread_{B.name}({args}); }}")
            out.append(ln)
        out.append(f"  g_done[{A.tid}] = 1;")
        out.append("}")
        out.append("int main(void) {")
        out += self.main.storage.render("  ")
        out.append("  g_gate = nondet_uchar(); __CPROVER_assume(g_gate < 7);")
        pre, post = [], []
        cur = pre
        for ln in self.main.lines:
            if ln.strip() == "/*POST*/":
                cur = post
                continue
            cur.append(ln)
        out += pre
        out.append(f"  g_inject_at = nondet_usize(); __CPROVER_assume(g_inject_at >= 1 && g_inject_at <= {k + 1});")
        out.append(f"  thread_{A.name}({args});")
        out.append(f"  if (g_inject_at == {k + 1}) {{ thread_{B.name}({args}); }}")
        if self.join_all:
            out.append("  __CPROVER_assume(" + " && ".join(f"g_done[{t.tid}]" for t in self.threads) + ");")
        out += post
        out.append("  return 0;")
        out.append("}")
        self.inject_points = k + 1
        return "\n".join(out) + "\n"

    def render_sequentialized(self, out, rounds: int) -> str:
        """Bounded round-robin sequentialization (Lal/Reps, as in Lazy-CSeq): every thread is a resumable function whose
        context-switch points are its visible operations (atomic sections); main runs `rounds` rounds, in each round every
        unfinished thread may run a solver-chosen number of visible operations.  Covers every interleaving with at most
        `rounds` execution contexts per thread (outside that: outside the claim); within it the search is exhaustive."""
        decl_re = re.compile(r"^\s*([\w ]+?) (\w+)((?:\[\d+\])*);$")
        out.append("unsigned char g_budget;")
        for t in self.threads:
            decls = [decl_re.match(ln).groups() for ln in t.storage.render("  ") if decl_re.match(ln)]
            for ty, nm, dims in decls:
                out.append(f"{ty} {t.name}__{nm}{dims};")
            out.append(f"unsigned short pc_{t.name};")
            for ty, nm, dims in decls:
                out.append(f"#define {nm} {t.name}__{nm}")
            out.append(f"void thread_{t.name}({', '.join(f'{ct} {nm}' for ct, nm in self.params) or 'void'}) {{")
            out.append(f"  switch (pc_{t.name}) {{ case 0:;")
            k = 0
            for ln in t.lines:
                if ln.lstrip().startswith("__CPROVER_atomic_begin();"):
                    k += 1
                    out.append(f"  if (g_budget == 0) {{ pc_{t.name} = {k}; return; }} g_budget--; case {k}:;")
                out.append(ln)
            out.append("  }")
            out.append(f"  pc_{t.name} = 65535; g_done[{t.tid}] = 1;")
            out.append("}")
            for ty, nm, dims in decls:
                out.append(f"#undef {nm}")
        out.append("int main(void) {")
        out += self.main.storage.render("  ")
        out.append("  g_gate = nondet_uchar(); __CPROVER_assume(g_gate < 7);")
        pre, post = [], []
        cur = pre
        for ln in self.main.lines:
            if ln.strip() == "/*POST*/":
                cur = post
                continue
            cur.append(ln)
        out += pre
        for t in self.threads:
            out.append(f"  pc_{t.name} = 0;")
        args = ', '.join(nm for _ct, nm in self.params)
        for r in range(rounds):
            for t in self.threads:
                out.append(f"  if (!g_done[{t.tid}] && nondet_bool()) {{ g_budget = nondet_uchar(); thread_{t.name}({args}); }}")
        if self.join_all:
            out.append("  __CPROVER_assume(" + " && ".join(f"g_done[{t.tid}]" for t in self.threads) + ");")
        out += post
        out.append("  return 0;")
        out.append("}")
        return "\n".join(out) + "\n"


# ---------------------------------------------------------------------------------------------
# CBMC driver
# ---------------------------------------------------------------------------------------------

class CbmcResult:
    def __init__(self):
        self.status = "error"        # ok | violation | inconclusive | error
        self.props = 0
        self.failed: List[Dict[str, Any]] = []
        self.inconclusive: List[str] = []
        self.wall = 0.0
        self.trace: List[Dict[str, Any]] = []
        self.raw_tail = ""
        self.covers_total = 0
        self.covers_hit = 0
        self.vcc = 0
        self.variables = 0
        self.clauses = 0


def unwindset_for(cfile: str, default_unwind: int) -> str:
    """per-loop unwinding limits: a translated loop whose head carries a counter bound K (`if (lcN >= K)`) needs K+1
    unwindings to hit its own BOUND assertion; every other loop keeps the global --unwind."""
    try:
        p = subprocess.run(["cbmc", cfile, "--show-loops", "--json-ui"], capture_output=True, text=True, timeout=120)
        data = json.loads(p.stdout)
    except Exception:
        return ""
    lines = open(cfile).read().split("\n")
    labels = {}
    for i, ln in enumerate(lines):
        m = re.match(r"^ (\w+):;", ln)
        if m:
            labels[m.group(1)] = i
    out = []
    for item in data:
        for lp in item.get("loops", []) if isinstance(item, dict) else []:
            try:
                ln = int(lp["sourceLocation"]["line"]) - 1
            except Exception:
                continue
            m = re.search(r"goto (\w+);", lines[ln]) if 0 <= ln < len(lines) else None
            if not m or m.group(1) not in labels:
                continue
            tgt = m.group(1)
            if tgt.endswith("_latch"):
                tgt = tgt[:-6]
            if tgt not in labels:
                continue
            nxt = lines[labels[tgt] + 1] if labels[tgt] + 1 < len(lines) else ""
            mk = re.search(r"if \(lc\d+ >= (\d+)\)", nxt)
            if mk:
                out.append(f"{lp['name']}:{int(mk.group(1)) + 1}")
    return ",".join(out)


def run_cbmc(cfile: str, unwind: int, timeout: int, extra: List[str] = (), mem_gb: int = 12, cover=False) -> CbmcResult:
    res = CbmcResult()
    cmd = ["cbmc", cfile, "--unwind", str(unwind), "--json-ui", "--no-pointer-check", "--no-built-in-assertions",
           "--no-undefined-shift-check", "--no-pointer-primitive-check", "--no-signed-overflow-check",
           "--no-div-by-zero-check"]
    cmd += ["--sat-solver", "cadical"]
    if cover:
        cmd += ["--cover", "cover", "-DCOVERMODE"]
    else:
        cmd += ["--unwinding-assertions", "--trace"]
    cmd += list(extra)
    us = unwindset_for(cfile, unwind)
    if us:
        cmd += ["--unwindset", us]
    t0 = time.time()
    shell = f"ulimit -v {mem_gb * 1024 * 1024}; exec timeout {timeout} " + " ".join(cmd)
    try:
        p = subprocess.run(["bash", "-c", shell], capture_output=True, text=True)
    except Exception as e:
        res.raw_tail = str(e)
        return res
    res.wall = time.time() - t0
    out = p.stdout
    if p.returncode == 124:
        res.status = "inconclusive"
        res.inconclusive.append(f"solver timeout after {timeout}s")
        return res
    try:
        data = json.loads(out)
    except Exception:
        res.raw_tail = (out[-1500:] + p.stderr[-1500:])
        res.status = "inconclusive" if "out of memory" in (out + p.stderr).lower() or p.returncode in (137, 134, -9, -6) else "error"
        if res.status == "inconclusive":
            res.inconclusive.append("solver out of memory / aborted")
        return res
    msgs = []
    for item in data:
        if "messageText" in item:
            msgs.append(item["messageText"])
            m = re.search(r"(\d+) variables, (\d+) clauses", item["messageText"])
            if m:
                res.variables, res.clauses = int(m.group(1)), int(m.group(2))
            m = re.search(r"Generated (\d+) VCC\(s\), (\d+) remaining", item["messageText"])
            if m:
                res.vcc = int(m.group(1))
        if cover and "goals" in item:
            res.covers_total = item.get("totalGoals", len(item["goals"]))
            res.covers_hit = item.get("goalsCovered", 0)
            res.failed = [g for g in item["goals"] if g.get("status") != "satisfied"]
            res.status = "ok" if not res.failed else "inconclusive"
        if "result" in item:
            res.props = len(item["result"])
            for r in item["result"]:
                if r.get("status") == "FAILURE":
                    desc = r.get("description", "")
                    kind = classify(desc, r.get("property", ""))
                    ent = {"property": r.get("property"), "description": desc, "kind": kind}
                    if kind == "violation":
                        ent["trace"] = r.get("trace", [])
                        res.failed.append(ent)
                    else:
                        res.inconclusive.append(desc)
            if res.failed:
                res.status = "violation"
            elif res.inconclusive:
                res.status = "inconclusive"
            else:
                res.status = "ok"
    if res.status == "error":
        res.raw_tail = "\n".join(msgs[-8:]) + p.stderr[-800:]
        if any("out of memory" in m.lower() for m in msgs) or p.returncode in (137, 134):
            res.status = "inconclusive"
            res.inconclusive.append("solver out of memory")
    return res


def classify(desc: str, prop: str) -> str:
    if desc.startswith("PROP ") or desc.startswith("RUST-PANIC") or desc.startswith("LOST-WAKEUP") or desc.startswith("DEADLOCK"):
        return "violation"
    return "inconclusive"   # BOUND, unwinding assertions, array bounds of the model, MIR unreachable ...


def trace_summary(trace: List[Dict[str, Any]], limit=400) -> List[str]:
    """compact rendering of a CBMC json trace: assignments to named variables and thread switches"""
    out = []
    last_thread = None
    for st in trace:
        th = st.get("thread")
        if st.get("stepType") == "assignment" and not st.get("hidden"):
            lhs = st.get("lhs", "")
            if lhs.startswith("__CPROVER") or lhs.startswith("return_value") or "$" in lhs:
                continue
            v = st.get("value", {})
            val = v.get("data", v.get("name", "?"))
            if th != last_thread:
                out.append(f"-- thread {th}")
                last_thread = th
            out.append(f"{lhs}={val}")
        elif st.get("stepType") == "failure":
            out.append(f"FAIL[{st.get('property')}] {st.get('reason')}")
    return out[-limit:]
