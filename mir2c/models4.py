"""Model library, part 7: std HashMap entry API on keyed maps, Skip / FilterMap adaptors, collect into Vec, Rev over slice iterators.

  HashMap::new / AHashMap::new          empty keyed map
  HashMap::entry(k) -> Entry            {map, key}; Entry::or_insert(v): inserts iff the key is absent, returns &mut value
  Iterator::skip(n) on (Enumerate<)slice::Iter(>): the first min(n, remaining) items are dropped (the count of an Enumerate advances
                                        with them, as std's Skip<Enumerate<..>> does); done eagerly -- slice iteration has no side effects
  Iterator::filter_map(f) + collect::<Vec<_>>(): every item of the inner iterator goes through f once, in the inner iterator's
                                        order (solver-chosen for hash maps); Some(x) is pushed
  slice::Iter::rev(): elements from the back"""
from translate import (Translator, Loc, VScalar, VRef, VLoc, VAgg, VUnit, VConst, TranslateError, StructN, ScalarN, UnitN, ArrN,
                       RefN, sub)
from models import model, rx, REG, self_loc
from rtypes import parse_type
import mvmodels
import itermodels
import models3


def t_std_entry(tr, ty, name, dims, storage, g):
    s = StructN(ty, name, dims, storage, "StdEntry")
    s.fields.append(RefN(None, name + "_map", dims, storage)); s.names.append("map")
    s.fields.append(ScalarN(None, name + "_k", dims, storage, "usize")); s.names.append("k")
    kt = ty.args[0] if ty is not None and ty.args else parse_type("usize")
    s.fields.append(tr.alloc(kt, name + "_key", dims, storage, g)); s.names.append("key")
    return s


@model("HashMap::new", "AHashMap::new", "<HashMap as Default>::default", "<AHashMap as Default>::default", doc="empty keyed map")
def m_km_new(tr, c):
    d = c.dest()
    m = d
    while not (m.node.kind == "struct" and m.node.tag == "KMap"):
        if m.node.kind == "struct" and len(m.node.fields) == 1:
            m = Loc(m.node.fields[0], m.idxs)
        else:
            raise TranslateError(f"HashMap::new into {d.node.name}")
    p = m.node.f("present")
    for k in range(p.cap):
        tr.emit(f"{p.elem.name}{sub(m.idxs + [str(k)])} = 0;")


@model("<AHashMap as DerefMut>::deref_mut", "<AHashMap as Deref>::deref", doc="AHashMap -> the std map it wraps (same keyed-map model)")
def m_ahm_deref(tr, c):
    m = self_loc(tr, c.args[0], "KMap")
    c.ret(VRef(m.node, m.idxs))


@model("HashMap::entry", "AHashMap::entry", doc="std HashMap::entry(key) on a keyed map")
def m_km_entry(tr, c):
    m = self_loc(tr, c.args[0], "KMap")
    d = c.dest()
    if not (d.node.kind == "struct" and d.node.tag == "StdEntry"):
        raise TranslateError(f"HashMap::entry into {d.node.name}")
    p = m.node.f("present")
    k = mvmodels.bound_key(tr, mvmodels.key_of(tr, c.args[1]), p.cap, "HashMap::entry")
    tr.store(Loc(d.node.f("map"), d.idxs), VRef(m.node, m.idxs))
    tr.emit(f"{tr.lv(Loc(d.node.f('k'), d.idxs))} = {k};")
    tr.store(Loc(d.node.f("key"), d.idxs), c.args[1])


def m_std_or_insert(tr, c):
    e = c.args[0].loc if isinstance(c.args[0], VLoc) else tr.deref(c.args[0])
    m = tr.deref(VLoc(Loc(e.node.f("map"), e.idxs)))
    k = tr.lv(Loc(e.node.f("k"), e.idxs))
    p, vals, keys = m.node.f("present"), m.node.f("vals"), m.node.f("keys")
    cell = f"{p.elem.name}{sub(m.idxs + [k])}"
    tr.emit(f"if (!{cell}) {{ {cell} = 1;")
    tr.store(Loc(vals.elem, m.idxs + [k]), c.args[1])
    tr.copy(Loc(keys.elem, m.idxs + [k]), Loc(e.node.f("key"), e.idxs))
    tr.emit("}")
    c.ret(VRef(vals.elem, m.idxs + [k]))


_old_or_insert = REG.lookup("Entry::or_insert")


def m_or_insert_dispatch(tr, c):
    a = c.args[0]
    try:
        e = a.loc if isinstance(a, VLoc) else tr.deref(a)
    except TranslateError:
        e = None
    if e is not None and e.node.kind == "struct" and e.node.tag == "StdEntry":
        return m_std_or_insert(tr, c)
    return _old_or_insert(tr, c)


REG.add("Entry::or_insert", m_or_insert_dispatch, "Entry::or_insert: std keyed-map entry (insert iff absent) or DashMap entry")


# ---- Skip -------------------------------------------------------------------------------------------------------------------------
def _slice_iter_of(it: Loc):
    """(SliceIter loc, count lvalue or None) behind an optional Enumerate"""
    n = it.node
    if n.kind == "struct" and n.tag == "SliceIter":
        return it, None
    if n.kind == "struct" and n.tag == "Enumerate":
        inner = Loc(n.f("inner"), it.idxs)
        if inner.node.kind == "struct" and inner.node.tag == "SliceIter":
            return inner, Loc(n.f("count"), it.idxs)
    raise TranslateError(f"skip over {n.name} (tag {getattr(n, 'tag', None)}) is not modelled")


@model(rx(r"<[A-Za-z]+ as Iterator>::skip"), rx(r"(core::iter::)?Iterator::skip"), doc="Iterator::skip(n) over a slice iterator (optionally enumerated)")
def m_skip(tr, c):
    d = c.dest()
    if not (d.node.kind == "struct" and d.node.tag == "Skip"):
        raise TranslateError(f"skip into {d.node.name}")
    src = c.args[0]
    inner = Loc(d.node.f("inner"), d.idxs)
    tr.copy(inner, src.loc if isinstance(src, VLoc) else tr.deref(src))
    si, cnt = _slice_iter_of(inner)
    a = tr.deref(VLoc(Loc(si.node.f("vec"), si.idxs)))
    pos = tr.lv(Loc(si.node.f("pos"), si.idxs))
    ln = tr.lv(Loc(a.node.len, a.idxs))
    n = tr.as_scalar(c.args[1]).expr
    k = tr.tmp("usize", "skipn")
    tr.emit(f"{k} = ({pos} >= {ln}) ? 0 : ((({n}) < {ln} - {pos}) ? ({n}) : {ln} - {pos});")
    tr.emit(f"{pos} = {pos} + {k};")
    if cnt is not None:
        tr.emit(f"{tr.lv(cnt)} = {tr.lv(cnt)} + {k};")


@model("<Skip as Iterator>::next", doc="next() of Skip: the inner iterator's next (the skipped prefix was dropped when the adaptor was built)")
def m_skip_next(tr, c):
    it = self_loc(tr, c.args[0])
    inner = Loc(it.node.f("inner"), it.idxs)
    key = "<Enumerate as Iterator>::next" if inner.node.tag == "Enumerate" else "Iter::next:SliceIter"
    REG.lookup(key)(tr, itermodels.ICtx(tr, c.inst, key, [VRef(inner.node, inner.idxs)], c.dest()))


@model("<Skip as IntoIterator>::into_iter", doc="identity")
def m_skip_into_iter(tr, c):
    c.ret(c.args[0])


# ---- filter_map + collect into Vec ---------------------------------------------------------------------------------------------------
@model(rx(r"<[A-Za-z]+ as Iterator>::filter_map"), rx(r"(core::iter::)?Iterator::filter_map"), doc="lazy filter_map adaptor")
def m_filter_map(tr, c):
    d = c.dest()
    if not (d.node.kind == "struct" and d.node.tag == "FilterMap"):
        raise TranslateError(f"filter_map into {d.node.name}")
    src = c.args[0]
    tr.copy(Loc(d.node.f("inner"), d.idxs), src.loc if isinstance(src, VLoc) else tr.deref(src))
    sn = (src.loc if isinstance(src, VLoc) else tr.deref(src)).node
    d.node.f("inner").extra.update(sn.extra)
    d.node.extra["pyval"] = c.args[1]


@model("<FilterMap as Iterator>::collect", doc="filter_map(f).collect::<Vec<_>>(): f applied to every item once, Some(x) pushed in the inner iterator's order")
def m_filter_map_collect(tr, c):
    v = c.args[0]
    it = v.loc if isinstance(v, VLoc) else tr.deref(v)
    d = c.dest()
    if d.node.kind != "arr":
        raise TranslateError(f"collect of a FilterMap into {d.node.name} is not modelled")
    inner = Loc(it.node.f("inner"), it.idxs)
    f = it.node.extra.get("pyval")
    if f is None:
        raise TranslateError("filter_map closure unknown")
    tr.tmpn += 1
    tmp = itermodels._alloc_opt_like(tr, c.inst, inner, f"fmi{tr.tmpn}")
    res = tr.make_enum(None, f"fmr{tr.tmpn}", [], tr.cur.storage, [("None", []), ("Some", [])])
    res.variants[1][1].fields.append(tr.clone(d.node.elem, f"fmr{tr.tmpn}_Some_0", [], tr.cur.storage)); res.variants[1][1].names.append("0")
    ln = tr.lv(Loc(d.node.len, d.idxs))
    done = tr.tmp("_Bool", "fmdone")
    tr.emit(f"{ln} = 0; {done} = 0;")
    cap = itermodels._iter_cap(inner.node)
    for _r in range(cap + 1):
        tr.emit(f"if (!{done}) {{")
        itermodels.emit_next(tr, c.inst, inner, Loc(tmp, []))
        tr.emit(f"if ({tr.lv(Loc(tmp.discr, []))} == {tmp.vindex('None')}) {{ {done} = 1; }} else {{")
        tr.call_closure(c.inst, f, [VLoc(Loc(tmp.variants[tmp.vindex('Some')][1].fields[0], []))], Loc(res, []))
        tr.emit(f"if ({tr.lv(Loc(res.discr, []))} == 1) {{")
        tr.emit(f'__CPROVER_assert({ln} < {d.node.cap}, "BOUND collect within Vec capacity");')
        ix = tr.tmp("usize", "fmix")
        tr.emit(f"{ix} = ({ln} < {d.node.cap}) ? {ln} : 0;")
        tr.copy(Loc(d.node.elem, d.idxs + [ix]), Loc(res.variants[1][1].fields[0], []))
        tr.emit(f"{ln} = {ln} + 1; }}")
        tr.emit("} }")
    tr.emit(f'__CPROVER_assert({done}, "BOUND collect within iterator capacity");')


# ---- Rev over a slice iterator ---------------------------------------------------------------------------------------------------------
def slice_iter_next_back(tr, it: Loc, dest: Loc, endv: str):
    """dest := next_back(); `endv` is a usize lvalue holding the exclusive end (initialised to len by rev())"""
    a = tr.deref(VLoc(Loc(it.node.f("vec"), it.idxs)))
    pos = tr.lv(Loc(it.node.f("pos"), it.idxs))
    n = dest.node
    si, ni = n.vindex("Some"), n.vindex("None")
    pc = tr.tmp("usize", "rposc")
    tr.emit(f"if ({endv} > {pos}) {{ {endv} = {endv} - 1; {pc} = ({endv} < {a.node.cap}) ? {endv} : 0;")
    tr.emit(f'__CPROVER_assert({endv} < {a.node.cap}, "BOUND reverse slice iteration within model capacity");')
    tr.emit(f"{tr.lv(Loc(n.discr, dest.idxs))} = {si};")
    tr.store(Loc(n.variants[si][1].fields[0], dest.idxs), VRef(a.node.elem, a.idxs + [pc]))
    tr.emit(f"}} else {{ {tr.lv(Loc(n.discr, dest.idxs))} = {ni}; }}")


def t_rev4(tr, ty, name, dims, storage, g):
    s = models3.t_rev(tr, ty, name, dims, storage, g)
    if s.f("inner").kind == "struct" and s.f("inner").tag == "SliceIter":
        s.fields.append(ScalarN(None, name + "_end", dims, storage, "usize")); s.names.append("end")
    return s


_old_rev = REG.lookup("<Range as Iterator>::rev")
_old_rev_next = REG.lookup("<Rev as Iterator>::next")


def m_rev4(tr, c):
    d = c.dest()
    _old_rev(tr, c)
    if d is not None and d.node.kind == "struct" and "end" in d.node.names:
        inner = Loc(d.node.f("inner"), d.idxs)
        a = tr.deref(VLoc(Loc(inner.node.f("vec"), inner.idxs)))
        tr.emit(f"{tr.lv(Loc(d.node.f('end'), d.idxs))} = {tr.lv(Loc(a.node.len, a.idxs))};")


def m_rev_next4(tr, c):
    it = self_loc(tr, c.args[0])
    if it.node.kind == "struct" and "end" in it.node.names:
        return slice_iter_next_back(tr, Loc(it.node.f("inner"), it.idxs), c.dest(), tr.lv(Loc(it.node.f("end"), it.idxs)))
    return _old_rev_next(tr, c)


for _k in ("<Range as Iterator>::rev", "<IntoIter as Iterator>::rev"):
    REG.add(_k, m_rev4, "Iterator::rev (slice iterators: reversed element order)")
REG.add("<Iter as Iterator>::rev", m_rev4, "Iterator::rev")
REG.add("<Rev as Iterator>::next", m_rev_next4, "next() of a reversed iterator")
REG.add("<Rev as IntoIterator>::into_iter", lambda tr, c: c.ret(c.args[0]), "identity")


def install4(tr):
    tm = tr.type_models
    old_entry = tm.get("Entry")

    def entry_dispatch(tr_, ty, name, dims, storage, g):
        if "hash_map" in ty.full or "hash::map" in ty.full:
            return t_std_entry(tr_, ty, name, dims, storage, g)
        return old_entry(tr_, ty, name, dims, storage, g)
    tm["Entry"] = entry_dispatch
    tm["Skip"] = itermodels.t_adaptor("Skip")
    tm["FilterMap"] = itermodels.t_adaptor("FilterMap")
    tm["Rev"] = t_rev4


# ---- `for x in &slice` ---------------------------------------------------------------------------------------------------------------
_old_vec_into_iter = REG.lookup("<Vec as IntoIterator>::into_iter")


def m_into_iter_dispatch(tr, c):
    try:
        d = c.dest()
    except TranslateError:
        d = None
    if d is not None and d.node.kind == "struct" and d.node.tag == "SliceIter":
        return models3.m_slice_iter(tr, c)          # <&[T] as IntoIterator>::into_iter == slice.iter()
    return _old_vec_into_iter(tr, c)


REG.add("<Vec as IntoIterator>::into_iter", m_into_iter_dispatch, "by-value Vec iteration, or slice.iter() when the source is a borrowed slice")
