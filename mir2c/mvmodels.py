"""Model library, part 3: keyed containers used by the multi-version memory.

  DashMap<K, V>        -> slots[KCAP] of Mutex-like {locked, data:{present, val: V}}; a Ref/RefMut guard holds the slot's
                          lock (real DashMap: shard RwLock; per-key exclusive locks over-approximate the interleavings of
                          different keys and serialise same-key readers, which cannot be told apart by readers)
  BTreeMap<usize, V>   -> {present[NCAP], vals[NCAP]} indexed by the key
  btree_map::Range     -> {map, lo, hi}            (range(..hi) / range(lo..hi)); next_back / next
  HashMap<K, V>        -> {present[KCAP], vals[KCAP]}; hash_map::Iter yields every present entry once in a solver-chosen order
  HashSet<K>           -> the existing Set model, keyed through the same key function

K is any type with a registered *key function* (cfg["key_fns"][type name] : (tr, Loc) -> C expr in 0..KCAP) -- e.g. an
abstract location id.  Keys out of range are BOUND assertion failures (inconclusive), never silently dropped."""
import re
from translate import (Translator, Loc, VScalar, VRef, VLoc, VAgg, VUnit, VConst, TranslateError, StructN, ScalarN, UnitN, ArrN,
                       RefN, sub)
from models import model, rx, REG, _opt_loc, self_loc, atomic_begin, atomic_end, visible, t_guard, _unlock, zero_default
from rtypes import parse_type


def kcap(tr, kty=None):
    if kty is not None:
        nm = kty.name if getattr(kty, "kind", "") == "path" else None
        caps = tr.cfg.get("key_caps", {})
        if nm in caps:
            return caps[nm]
    return tr.cfg.get("key_cap", 2)


def key_of(tr: Translator, v, kty=None) -> str:
    """C expression of the key index of a key value / reference to a key"""
    loc = None
    if isinstance(v, VRef) or (isinstance(v, VLoc) and v.loc.node.kind == "ref"):
        loc = tr.deref(v)
        while loc.node.kind == "ref":
            loc = tr.deref(VLoc(loc))
    elif isinstance(v, VLoc):
        loc = v.loc
    if loc is not None:
        n = loc.node
        tyn = n.ty.name if n.ty is not None and n.ty.kind == "path" else None
        kf = tr.cfg.get("key_fns", {}).get(tyn)
        if kf:
            return kf(tr, loc)
        while n.kind == "struct" and len(n.fields) == 1:
            loc = Loc(n.fields[0], loc.idxs)
            n = loc.node
        if n.kind == "scalar":
            return tr.lv(loc)
        raise TranslateError(f"no key function for key type {tyn} ({n.name})")
    return tr.as_scalar(v).expr


def bound_key(tr, k: str, cap: int, what: str) -> str:
    t = tr.tmp("usize", "key")
    tr.emit(f"{t} = {k};")
    tr.emit(f'__CPROVER_assert({t} < {cap}, "BOUND {what} key within model capacity"); __CPROVER_assume({t} < {cap});')
    return t


# ------------------------------------------------------------------------------------------------ types
def t_dashmap(tr, ty, name, dims, storage, g):
    cap = kcap(tr, ty.args[0] if ty.args else None)
    s = StructN(ty, name, dims, storage, "DashMap")
    a = ArrN(None, name + "_slots", dims, storage, cap)
    m = StructN(None, name + "_s", dims + [cap], storage, "Mutex")
    m.fields.append(ScalarN(None, name + "_s_locked", dims + [cap], storage, "_Bool"))
    m.names.append("locked")
    d = StructN(None, name + "_s_data", dims + [cap], storage, "DashSlot")
    d.fields.append(ScalarN(None, name + "_s_present", dims + [cap], storage, "_Bool"))
    d.names.append("present")
    d.fields.append(tr.alloc(ty.args[1], name + "_s_val", dims + [cap], storage, g))
    d.names.append("val")
    m.fields.append(d)
    m.names.append("data")
    a.elem = m
    s.fields.append(a)
    s.names.append("slots")
    return s


def t_btree(tr, ty, name, dims, storage, g):
    cap = tr.cfg.get("btree_cap", tr.cap)
    s = StructN(ty, name, dims, storage, "BTree")
    p = ArrN(None, name + "_present", dims, storage, cap)
    p.elem = ScalarN(None, name + "_p", dims + [cap], storage, "_Bool")
    s.fields.append(p)
    s.names.append("present")
    v = ArrN(None, name + "_vals", dims, storage, cap)
    v.elem = tr.alloc(ty.args[1], name + "_v", dims + [cap], storage, g)
    s.fields.append(v)
    s.names.append("vals")
    s.extra["default"] = _btree_clear
    return s


def _btree_clear(tr, loc):
    p = loc.node.f("present")
    for k in range(p.cap):
        tr.emit(f"{p.elem.name}{sub(loc.idxs + [str(k)])} = 0;")


def t_brange(tr, ty, name, dims, storage, g):
    s = StructN(ty, name, dims, storage, "BRange")
    s.fields.append(RefN(None, name + "_map", dims, storage))
    s.names.append("map")
    for f in ("lo", "hi"):
        s.fields.append(ScalarN(None, f"{name}_{f}", dims, storage, "usize"))
        s.names.append(f)
    s.fields.append(ScalarN(None, f"{name}_cur", dims, storage, "usize"))
    s.names.append("cur")
    return s


def t_kmap(tr, ty, name, dims, storage, g):
    """HashMap<K, V> keyed through the key function of K"""
    cap = kcap(tr, ty.args[0] if ty.args else None)
    s = StructN(ty, name, dims, storage, "KMap")
    p = ArrN(None, name + "_present", dims, storage, cap)
    p.elem = ScalarN(None, name + "_p", dims + [cap], storage, "_Bool")
    s.fields.append(p)
    s.names.append("present")
    v = ArrN(None, name + "_vals", dims, storage, cap)
    v.elem = tr.alloc(ty.args[1], name + "_v", dims + [cap], storage, g)
    s.fields.append(v)
    s.names.append("vals")
    k = ArrN(None, name + "_keys", dims, storage, cap)
    k.elem = tr.alloc(ty.args[0], name + "_k", dims + [cap], storage, g)
    s.fields.append(k)
    s.names.append("keys")
    s.extra["default"] = _btree_clear
    return s


def t_kmapiter(tr, ty, name, dims, storage, g):
    cap = kcap(tr, ty.args[0] if ty is not None and ty.args else None)
    s = StructN(ty, name, dims, storage, "KMapIter")
    s.fields.append(RefN(None, name + "_map", dims, storage))
    s.names.append("map")
    a = ArrN(None, name + "_vis", dims, storage, cap)
    a.elem = ScalarN(None, name + "_v", dims + [cap], storage, "_Bool")
    s.fields.append(a)
    s.names.append("visited")
    s.fields.append(ScalarN(None, name + "_cur", dims, storage, "usize"))
    s.names.append("cur")
    return s


def t_kset(tr, ty, name, dims, storage, g):
    """HashSet<K> for a keyed K: presence bitmap + the key values (so iteration can hand out &K)"""
    cap = kcap(tr, ty.args[0] if ty.args else None)
    s = StructN(ty, name, dims, storage, "Set")
    a = ArrN(None, name + "_present", dims, storage, cap)
    a.elem = ScalarN(None, name + "_p", dims + [cap], storage, "_Bool")
    s.fields.append(a)
    s.names.append("present")
    k = ArrN(None, name + "_keys", dims, storage, cap)
    k.elem = tr.alloc(ty.args[0], name + "_k", dims + [cap], storage, g)
    s.fields.append(k)
    s.names.append("keys")
    return s


def install(tr: Translator):
    tm = tr.type_models
    tm["DashMap"] = t_dashmap
    tm["BTreeMap"] = t_btree
    tm["Ref"] = t_guard
    tm["RefMut"] = t_guard
    for kt in tr.cfg.get("key_fns", {}):
        tm["Set:" + kt] = t_kset
    old_iter = tm.get("Iter")

    def iter_dispatch(tr_, ty, name, dims, storage, g):
        if "hash_map" in ty.full or "hash::map" in ty.full:
            return t_kmapiter(tr_, ty, name, dims, storage, g)
        return old_iter(tr_, ty, name, dims, storage, g)
    tm["Iter"] = iter_dispatch
    old_into = tm.get("IntoIter")

    def intoiter_dispatch(tr_, ty, name, dims, storage, g):
        if "hash_map" in ty.full or "hash::map" in ty.full:
            return t_kmapiter(tr_, ty, name, dims, storage, g)
        if old_into:
            return old_into(tr_, ty, name, dims, storage, g)
        raise TranslateError(f"no IntoIter model for {ty.full}")
    tm["IntoIter"] = intoiter_dispatch
    tm["OccupiedEntry"] = t_guard
    tm["VacantEntry"] = t_guard
    old_range = tm.get("Range")

    def range_dispatch(tr_, ty, name, dims, storage, g):
        if "btree" in ty.full:
            return t_brange(tr_, ty, name, dims, storage, g)
        return old_range(tr_, ty, name, dims, storage, g)
    tm["Range"] = range_dispatch
    tm["RangeTo"] = t_rangeto
    tm["RangeFrom"] = t_rangefrom
    tm["RangeToInclusive"] = t_rangetoincl
    tm["Entry"] = t_entry
    if tr.cfg.get("kmaps", True):
        for n in ("AHashMap", "HashMap"):
            tm.setdefault(n, t_kmap)


# ------------------------------------------------------------------------------------------------ DashMap
def _dash(tr, v) -> Loc:
    return self_loc(tr, v, "DashMap")


def _slot(tr, dm: Loc, k: str) -> Loc:
    return Loc(dm.node.f("slots").elem, dm.idxs + [k])


def _bind_guard(tr, gnode: StructN, gidxs, slot: Loc):
    """lock already taken: copy the slot's data into thread-private storage and bind the guard"""
    tr.tmpn += 1
    cp = tr.clone(slot.node.f("data"), f"cs{tr.tmpn}_{slot.node.name}", [], tr.cur.storage)
    tr.copy(Loc(cp, []), Loc(slot.node.f("data"), slot.idxs))
    return cp


@model("DashMap::get", "DashMap::get_mut", doc="DashMap lookup: takes the key's slot lock; Some(guard) iff the key is present "
                                               "(the lock is released at once when absent)")
def m_dash_get(tr, c):
    dm = _dash(tr, c.args[0])
    k = bound_key(tr, key_of(tr, c.args[1]), dm.node.f("slots").cap, "DashMap")
    slot = _slot(tr, dm, k)
    lk = tr.lv(Loc(slot.node.f("locked"), slot.idxs))
    pres = tr.lv(Loc(slot.node.f("data").f("present"), slot.idxs))
    d = c.dest()
    n = d.node
    si, ni = n.vindex("Some"), n.vindex("None")
    dd = tr.lv(Loc(n.discr, d.idxs))
    g = n.variants[si][1].fields[0]
    atomic_begin(tr)
    tr.emit(f"__CPROVER_assume(!{lk} || g_gate == 9);")
    hk = tr.cfg.get("dash_get_hook")
    if hk:
        hk(tr, c, dm)          # harness ghost: observes the instant of a multi-version-memory lookup
    tr.emit(f"if ({pres}) {{ {lk} = 1; {dd} = {si}; }} else {{ {dd} = {ni}; }}")
    cp = _bind_guard(tr, g, d.idxs, slot)
    atomic_end(tr)
    tr.store(Loc(g.fields[0], d.idxs), VRef(slot.node, slot.idxs))
    tr.store(Loc(g.fields[1], d.idxs), VRef(cp, []))


def t_entry(tr, ty, name, dims, storage, g):
    """dashmap::Entry: enum { Occupied(OccupiedEntry), Vacant(VacantEntry) }; both variants are guards of the same locked slot"""
    e = tr.make_enum(ty, name, dims, storage, [("Occupied", []), ("Vacant", [])], g)
    for vn, vs in e.variants:
        gd = t_guard(tr, None, f"{name}_{vn}_g", dims, storage, g)
        vs.fields.append(gd)
        vs.names.append("0")
    return e


def _entry_guard(tr, v) -> Loc:
    """the guard inside an Entry value (enum) or a bare entry guard"""
    loc = v.loc if isinstance(v, VLoc) else tr.deref(v)
    while loc.node.kind == "ref":
        loc = tr.deref(VLoc(loc))
    if loc.node.kind == "enum":
        return Loc(loc.node.variants[0][1].fields[0], loc.idxs)      # both variants are bound identically
    return loc


@model("DashMap::entry", doc="DashMap::entry(key): takes the key's slot lock; Occupied iff the key is present (the Entry holds the lock)")
def m_dash_entry(tr, c):
    dm = _dash(tr, c.args[0])
    k = bound_key(tr, key_of(tr, c.args[1]), dm.node.f("slots").cap, "DashMap")
    slot = _slot(tr, dm, k)
    lk = tr.lv(Loc(slot.node.f("locked"), slot.idxs))
    pres = tr.lv(Loc(slot.node.f("data").f("present"), slot.idxs))
    d = c.dest()
    e = d.node
    atomic_begin(tr)
    tr.emit(f"__CPROVER_assume(!{lk} || g_gate == 9); {lk} = 1; {tr.lv(Loc(e.discr, d.idxs))} = {pres} ? {e.vindex('Occupied')} : {e.vindex('Vacant')};")
    cp = _bind_guard(tr, None, d.idxs, slot)
    atomic_end(tr)
    for _vn, vs in e.variants:
        g = vs.fields[0]
        tr.store(Loc(g.fields[0], d.idxs), VRef(slot.node, slot.idxs))
        tr.store(Loc(g.fields[1], d.idxs), VRef(cp, []))


@model("Entry::or_default", "Entry::or_insert_with", "Entry::or_insert", doc="Entry -> RefMut; inserts the value when vacant")
def m_entry_or_default(tr, c):
    g = _entry_guard(tr, c.args[0])
    cp = tr.deref(VLoc(Loc(g.node.fields[1], g.idxs)))
    pres = tr.lv(Loc(cp.node.f("present"), cp.idxs))
    tr.emit(f"if (!{pres}) {{ {pres} = 1;")
    if c.key.endswith("or_insert"):
        tr.store(Loc(cp.node.f("val"), cp.idxs), c.args[1])
    elif c.key.endswith("or_insert_with"):
        tr.call_closure(c.inst, c.args[1], [], Loc(cp.node.f("val"), cp.idxs))
    else:
        zero_default(tr, Loc(cp.node.f("val"), cp.idxs))
    tr.emit("}")
    d = c.dest()
    tr.copy(d, g)          # the RefMut takes over the Entry's lock


@model("VacantEntry::insert", doc="VacantEntry::insert(v) -> RefMut")
def m_vacant_insert(tr, c):
    g = _entry_guard(tr, c.args[0])
    cp = tr.deref(VLoc(Loc(g.node.fields[1], g.idxs)))
    tr.emit(f"{tr.lv(Loc(cp.node.f('present'), cp.idxs))} = 1;")
    tr.store(Loc(cp.node.f("val"), cp.idxs), c.args[1])
    tr.copy(c.dest(), g)


@model("OccupiedEntry::into_ref", doc="OccupiedEntry -> RefMut")
def m_occ_into_ref(tr, c):
    tr.copy(c.dest(), _entry_guard(tr, c.args[0]))


@model("OccupiedEntry::get", "OccupiedEntry::get_mut", doc="&V of the locked slot")
def m_occ_get(tr, c):
    g = _entry_guard(tr, c.args[0])
    cp = tr.deref(VLoc(Loc(g.node.fields[1], g.idxs)))
    c.ret(VRef(cp.node.f("val"), cp.idxs))


@model("DashMap::insert", doc="DashMap::insert(k, v) -> previous value (lock taken and released)")
def m_dash_insert(tr, c):
    dm = _dash(tr, c.args[0])
    k = bound_key(tr, key_of(tr, c.args[1]), dm.node.f("slots").cap, "DashMap")
    slot = _slot(tr, dm, k)
    lk = tr.lv(Loc(slot.node.f("locked"), slot.idxs))
    data = slot.node.f("data")
    pres = tr.lv(Loc(data.f("present"), slot.idxs))
    d = c.dest()
    atomic_begin(tr)
    tr.emit(f"__CPROVER_assume(!{lk} || g_gate == 9);")
    if d is not None and d.node.kind == "enum":
        si, ni = d.node.vindex("Some"), d.node.vindex("None")
        tr.emit(f"{tr.lv(Loc(d.node.discr, d.idxs))} = {pres} ? {si} : {ni};")
        tr.copy(Loc(d.node.variants[si][1].fields[0], d.idxs), Loc(data.f("val"), slot.idxs))
    tr.store(Loc(data.f("val"), slot.idxs), c.args[2])
    tr.emit(f"{pres} = 1;")
    visible(tr)
    atomic_end(tr)


@model("DashMap::remove", doc="DashMap::remove(k) -> Option<(K, V)> (lock taken and released)")
def m_dash_remove(tr, c):
    dm = _dash(tr, c.args[0])
    k = bound_key(tr, key_of(tr, c.args[1]), dm.node.f("slots").cap, "DashMap")
    slot = _slot(tr, dm, k)
    lk = tr.lv(Loc(slot.node.f("locked"), slot.idxs))
    data = slot.node.f("data")
    pres = tr.lv(Loc(data.f("present"), slot.idxs))
    d = c.dest()
    atomic_begin(tr)
    tr.emit(f"__CPROVER_assume(!{lk} || g_gate == 9);")
    if d is not None and d.node.kind == "enum":
        si, ni = d.node.vindex("Some"), d.node.vindex("None")
        tr.emit(f"{tr.lv(Loc(d.node.discr, d.idxs))} = {pres} ? {si} : {ni};")
        tup = d.node.variants[si][1].fields[0]
        if tup.kind == "struct" and len(tup.fields) == 2:
            tr.copy(Loc(tup.fields[1], d.idxs), Loc(data.f("val"), slot.idxs))
    tr.emit(f"{pres} = 0;")
    _clear_value(tr, Loc(data.f("val"), slot.idxs))
    visible(tr)
    atomic_end(tr)


def _clear_value(tr, loc):
    """reset a removed map value to its empty state (so that a later re-insert starts from Default)"""
    n = loc.node
    if n.kind == "struct" and n.tag == "DashMap":
        sl = n.f("slots")
        for k in range(sl.cap):
            tr.emit(f"{tr.lv(Loc(sl.elem.f('data').f('present'), loc.idxs + [str(k)]))} = 0;")


@model("DashMap::new", "<DashMap as Default>::default", "DashMap::default", "DashMap::with_hasher", doc="empty map")
def m_dash_new(tr, c):
    d = c.dest()
    if d is None:
        return
    sl = d.node.f("slots")
    for k in range(sl.cap):
        tr.emit(f"{tr.lv(Loc(sl.elem.f('locked'), d.idxs + [str(k)]))} = 0; {tr.lv(Loc(sl.elem.f('data').f('present'), d.idxs + [str(k)]))} = 0;")


@model("<Ref as Deref>::deref", "<RefMut as Deref>::deref", "<RefMut as DerefMut>::deref_mut", "Ref::value", "RefMut::value_mut", "RefMut::value",
       doc="DashMap guard -> the value of the locked slot")
def m_ref_deref(tr, c):
    g = tr.deref(c.args[0])
    if not (g.node.kind == "struct" and g.node.tag == "Guard"):
        raise TranslateError(f"deref of non-guard {g.node.name}")
    cp = tr.deref(VLoc(Loc(g.node.fields[1], g.idxs)))
    if cp.node.kind == "struct" and cp.node.tag == "DashSlot":
        c.ret(VRef(cp.node.f("val"), cp.idxs))
    else:
        c.ret(VRef(cp.node, cp.idxs))


@model("DashMap::contains_key")
def m_dash_contains(tr, c):
    dm = _dash(tr, c.args[0])
    k = bound_key(tr, key_of(tr, c.args[1]), dm.node.f("slots").cap, "DashMap")
    slot = _slot(tr, dm, k)
    lk = tr.lv(Loc(slot.node.f("locked"), slot.idxs))
    d = c.dest()
    atomic_begin(tr)
    tr.emit(f"__CPROVER_assume(!{lk} || g_gate == 9); {tr.lv(d)} = {tr.lv(Loc(slot.node.f('data').f('present'), slot.idxs))};")
    atomic_end(tr)


# ------------------------------------------------------------------------------------------------ BTreeMap<usize, V>
def _bt(tr, v) -> Loc:
    return self_loc(tr, v, "BTree")


def _usize_arg(tr, v) -> str:
    try:
        return tr.as_scalar(v).expr
    except TranslateError:
        loc = tr.deref(v)
        return tr.as_scalar(VLoc(loc)).expr


@model("BTreeMap::insert", doc="BTreeMap<usize,V>::insert -> previous value")
def m_bt_insert(tr, c):
    b = _bt(tr, c.args[0])
    p, vals = b.node.f("present"), b.node.f("vals")
    k = bound_key(tr, _usize_arg(tr, c.args[1]), p.cap, "BTreeMap")
    d = c.dest()
    cell = f"{p.elem.name}{sub(b.idxs + [k])}"
    if d is not None and d.node.kind == "enum":
        si, ni = d.node.vindex("Some"), d.node.vindex("None")
        tr.emit(f"if ({cell}) {{ {tr.lv(Loc(d.node.discr, d.idxs))} = {si};")
        tr.copy(Loc(d.node.variants[si][1].fields[0], d.idxs), Loc(vals.elem, b.idxs + [k]))
        tr.emit(f"}} else {{ {tr.lv(Loc(d.node.discr, d.idxs))} = {ni}; }}")
    tr.store(Loc(vals.elem, b.idxs + [k]), c.args[2])
    tr.emit(f"{cell} = 1;")


@model("BTreeMap::remove", doc="BTreeMap<usize,V>::remove -> removed value")
def m_bt_remove(tr, c):
    b = _bt(tr, c.args[0])
    p, vals = b.node.f("present"), b.node.f("vals")
    k = bound_key(tr, _usize_arg(tr, c.args[1]), p.cap, "BTreeMap")
    d = c.dest()
    cell = f"{p.elem.name}{sub(b.idxs + [k])}"
    if d is not None and d.node.kind == "enum":
        si, ni = d.node.vindex("Some"), d.node.vindex("None")
        tr.emit(f"if ({cell}) {{ {tr.lv(Loc(d.node.discr, d.idxs))} = {si};")
        tr.copy(Loc(d.node.variants[si][1].fields[0], d.idxs), Loc(vals.elem, b.idxs + [k]))
        tr.emit(f"}} else {{ {tr.lv(Loc(d.node.discr, d.idxs))} = {ni}; }}")
    tr.emit(f"{cell} = 0;")


@model("BTreeMap::get", "BTreeMap::get_mut", doc="BTreeMap<usize,V>::get(_mut) -> Option<&V>")
def m_bt_get(tr, c):
    b = _bt(tr, c.args[0])
    p, vals = b.node.f("present"), b.node.f("vals")
    kk = tr.tmp("usize", "key")
    tr.emit(f"{kk} = {_usize_arg(tr, c.args[1])};")
    d = c.dest()
    n = d.node
    si, ni = n.vindex("Some"), n.vindex("None")
    kc = tr.tmp("usize", "keyc")
    tr.emit(f"{kc} = ({kk} < {p.cap}) ? {kk} : 0;")
    tr.emit(f"{tr.lv(Loc(n.discr, d.idxs))} = ({kk} < {p.cap} && {p.elem.name}{sub(b.idxs + [kc])}) ? {si} : {ni};")
    tr.store(Loc(n.variants[si][1].fields[0], d.idxs), VRef(vals.elem, b.idxs + [kc]))


@model("BTreeMap::contains_key")
def m_bt_contains(tr, c):
    b = _bt(tr, c.args[0])
    p = b.node.f("present")
    kk = tr.tmp("usize", "key")
    tr.emit(f"{kk} = {_usize_arg(tr, c.args[1])};")
    c.ret(VScalar(f"({kk} < {p.cap} && {p.elem.name}{sub(b.idxs + ['(' + kk + ' < ' + str(p.cap) + ' ? ' + kk + ' : 0)'])})", "_Bool"))


@model("BTreeMap::is_empty")
def m_bt_is_empty(tr, c):
    b = _bt(tr, c.args[0])
    p = b.node.f("present")
    c.ret(VScalar("(" + " && ".join(f"!{p.elem.name}{sub(b.idxs + [str(k)])}" for k in range(p.cap)) + ")", "_Bool"))


@model("BTreeMap::new", "<BTreeMap as Default>::default")
def m_bt_new(tr, c):
    d = c.dest()
    _btree_clear(tr, d)


@model("BTreeMap::range", doc="BTreeMap<usize,V>::range(..hi | lo..hi | lo..)")
def m_bt_range(tr, c):
    b = _bt(tr, c.args[0])
    d = c.dest()
    r = c.args[1]
    lo, hi = "0", str(b.node.f("present").cap)
    rl = r.loc if isinstance(r, VLoc) else None
    if rl is not None and rl.node.kind == "struct":
        names = rl.node.names
        if "start" in names:
            lo = tr.lv(Loc(rl.node.f("start"), rl.idxs))
        if "end" in names:
            hi = tr.lv(Loc(rl.node.f("end"), rl.idxs))
        inclusive = rl.node.ty is not None and "Inclusive" in (rl.node.ty.name or "")
        if inclusive:
            raise TranslateError("inclusive BTreeMap ranges are not modelled")
    elif isinstance(r, VAgg):
        raise TranslateError("BTreeMap::range with aggregate literal")
    else:
        raise TranslateError(f"BTreeMap::range argument {r}")
    tr.store(Loc(d.node.f("map"), d.idxs), VRef(b.node, b.idxs))
    tr.emit(f"{tr.lv(Loc(d.node.f('lo'), d.idxs))} = {lo}; {tr.lv(Loc(d.node.f('hi'), d.idxs))} = {hi};")


def t_rangeto(tr, ty, name, dims, storage, g):
    s = StructN(ty, name, dims, storage, "RangeTo")
    s.fields.append(ScalarN(None, f"{name}_end", dims, storage, "usize"))
    s.names.append("end")
    return s


def t_rangefrom(tr, ty, name, dims, storage, g):
    s = StructN(ty, name, dims, storage, "RangeFrom")
    s.fields.append(ScalarN(None, f"{name}_start", dims, storage, "usize"))
    s.names.append("start")
    return s


def t_rangetoincl(tr, ty, name, dims, storage, g):
    s = StructN(ty, name, dims, storage, "RangeToInclusive")
    s.fields.append(ScalarN(None, f"{name}_end", dims, storage, "usize"))
    s.names.append("end")
    return s


@model("<Range as DoubleEndedIterator>::next_back",
       doc="btree range: greatest (next_back) / least (next) present key in [lo, hi), shrinking the range")
def m_brange_next(tr, c):
    r = self_loc(tr, c.args[0])
    if not (r.node.kind == "struct" and r.node.tag == "BRange"):
        alt = REG.lookup("<Range as Iterator>::next")
        return alt(tr, c)
    back = c.key.endswith("next_back")
    b = tr.deref(VLoc(Loc(r.node.f("map"), r.idxs)))
    p, vals = b.node.f("present"), b.node.f("vals")
    lo, hi = tr.lv(Loc(r.node.f("lo"), r.idxs)), tr.lv(Loc(r.node.f("hi"), r.idxs))
    cur = tr.lv(Loc(r.node.f("cur"), r.idxs))
    d = c.dest()
    n = d.node
    si, ni = n.vindex("Some"), n.vindex("None")
    dd = tr.lv(Loc(n.discr, d.idxs))
    tr.emit(f"{dd} = {ni}; {cur} = 0;")
    ks = range(p.cap) if back else reversed(range(p.cap))
    for k in ks:     # ascending scan keeps the greatest (back) / descending keeps the least
        tr.emit(f"if ({p.elem.name}{sub(b.idxs + [str(k)])} && {k} >= {lo} && {k} < {hi}) {{ {dd} = {si}; {cur} = {k}; }}")
    tr.emit(f"if ({dd} == {si}) {{ " + (f"{hi} = {cur};" if back else f"{lo} = {cur} + 1;") + " }")
    tup = n.variants[si][1].fields[0]        # (&K, &V)
    tr.store(Loc(tup.fields[0], d.idxs), VRef(r.node.f("cur"), r.idxs))
    tr.store(Loc(tup.fields[1], d.idxs), VRef(vals.elem, b.idxs + [cur]))


# ------------------------------------------------------------------------------------------------ HashMap<K, V>
def _km(tr, v) -> Loc:
    return self_loc(tr, v, "KMap")


@model("HashMap::insert", "AHashMap::insert", doc="keyed HashMap insert -> previous value")
def m_km_insert(tr, c):
    m = _km(tr, c.args[0])
    p, vals, keys = m.node.f("present"), m.node.f("vals"), m.node.f("keys")
    k = bound_key(tr, key_of(tr, c.args[1]), p.cap, "HashMap")
    d = c.dest()
    cell = f"{p.elem.name}{sub(m.idxs + [k])}"
    if d is not None and d.node.kind == "enum":
        si, ni = d.node.vindex("Some"), d.node.vindex("None")
        tr.emit(f"if ({cell}) {{ {tr.lv(Loc(d.node.discr, d.idxs))} = {si};")
        tr.copy(Loc(d.node.variants[si][1].fields[0], d.idxs), Loc(vals.elem, m.idxs + [k]))
        tr.emit(f"}} else {{ {tr.lv(Loc(d.node.discr, d.idxs))} = {ni}; }}")
    tr.store(Loc(vals.elem, m.idxs + [k]), c.args[2])
    tr.store(Loc(keys.elem, m.idxs + [k]), c.args[1])
    tr.emit(f"{cell} = 1;")


@model("HashMap::get", "AHashMap::get", "HashMap::get_mut", doc="keyed HashMap get -> Option<&V>")
def m_km_get(tr, c):
    m = _km(tr, c.args[0])
    p, vals = m.node.f("present"), m.node.f("vals")
    kk = tr.tmp("usize", "key")
    tr.emit(f"{kk} = {key_of(tr, c.args[1])};")
    d = c.dest()
    n = d.node
    si, ni = n.vindex("Some"), n.vindex("None")
    kc = tr.tmp("usize", "keyc")
    tr.emit(f"{kc} = ({kk} < {p.cap}) ? {kk} : 0;")
    tr.emit(f"{tr.lv(Loc(n.discr, d.idxs))} = ({kk} < {p.cap} && {p.elem.name}{sub(m.idxs + [kc])}) ? {si} : {ni};")
    tr.store(Loc(n.variants[si][1].fields[0], d.idxs), VRef(vals.elem, m.idxs + [kc]))


@model("HashMap::contains_key", "AHashMap::contains_key")
def m_km_contains(tr, c):
    m = self_loc(tr, c.args[0])
    if not (m.node.kind == "struct" and m.node.tag == "KMap"):
        alt = tr.models.lookup("contains_key:" + str(getattr(m.node, "tag", m.node.kind)))
        if alt:
            return alt(tr, c)
        raise TranslateError(f"contains_key on {m.node.name}")
    p = m.node.f("present")
    kk = tr.tmp("usize", "key")
    tr.emit(f"{kk} = {key_of(tr, c.args[1])};")
    c.ret(VScalar(f"({kk} < {p.cap} && {p.elem.name}{sub(m.idxs + ['(' + kk + ' < ' + str(p.cap) + ' ? ' + kk + ' : 0)'])})", "_Bool"))


@model("HashMap::is_empty", "AHashMap::is_empty")
def m_km_is_empty(tr, c):
    m = self_loc(tr, c.args[0])
    p = m.node.f("present")
    c.ret(VScalar("(" + " && ".join(f"!{p.elem.name}{sub(m.idxs + [str(k)])}" for k in range(p.cap)) + ")", "_Bool"))


@model("HashMap::clear", "AHashMap::clear")
def m_km_clear(tr, c):
    m = self_loc(tr, c.args[0])
    _btree_clear(tr, m)


@model("HashMap::iter", "AHashMap::iter", "<&AHashMap as IntoIterator>::into_iter", "<&HashMap as IntoIterator>::into_iter",
       doc="keyed HashMap iteration: every entry once, order chosen by the solver")
def m_km_iter(tr, c):
    m = _km(tr, c.args[0])
    d = c.dest()
    it = d.node
    tr.store(Loc(it.f("map"), d.idxs), VRef(m.node, m.idxs))
    vis = it.f("visited")
    for k in range(vis.cap):
        tr.emit(f"{vis.elem.name}{sub(d.idxs + [str(k)])} = 0;")


def m_kmiter_next(tr, c):
    itl = tr.deref(c.args[0])
    it = itl.node
    m = tr.deref(VLoc(Loc(it.f("map"), itl.idxs)))
    p, vals, keys = m.node.f("present"), m.node.f("vals"), m.node.f("keys")
    vis = it.f("visited")
    k = tr.tmp("usize", "pick")
    rem = " || ".join(f"({p.elem.name}{sub(m.idxs + [str(j)])} && !{vis.elem.name}{sub(itl.idxs + [str(j)])})" for j in range(p.cap))
    d = c.dest()
    n = d.node
    si, ni = n.vindex("Some"), n.vindex("None")
    dd = tr.lv(Loc(n.discr, d.idxs))
    cur = tr.lv(Loc(it.f("cur"), itl.idxs))
    tr.emit(f"if ({rem}) {{")
    tr.emit(f"  {k} = nondet_usize(); __CPROVER_assume({k} < {p.cap} && {p.elem.name}{sub(m.idxs + [k])} && !{vis.elem.name}{sub(itl.idxs + [k])});")
    tr.emit(f"  {vis.elem.name}{sub(itl.idxs + [k])} = 1; {cur} = {k}; {dd} = {si};")
    tr.emit(f"}} else {{ {dd} = {ni}; {cur} = 0; }}")
    tup = n.variants[si][1].fields[0]
    tr.store(Loc(tup.fields[0], d.idxs), VRef(keys.elem, m.idxs + [cur]))
    tr.store(Loc(tup.fields[1], d.idxs), VRef(vals.elem, m.idxs + [cur]))


REG.add("Iter::next:KMapIter", m_kmiter_next, "keyed HashMap iterator: solver-chosen unvisited entry")


@model("<HashMap as IntoIterator>::into_iter", "<AHashMap as IntoIterator>::into_iter", doc="by-value iteration of a keyed map (entries yielded as (K, V))")
def m_km_into_iter(tr, c):
    v = c.args[0]
    m = v.loc if isinstance(v, VLoc) else _km(tr, v)
    d = c.dest()
    it = d.node
    tr.store(Loc(it.f("map"), d.idxs), VRef(m.node, m.idxs))
    vis = it.f("visited")
    for k in range(vis.cap):
        tr.emit(f"{vis.elem.name}{sub(d.idxs + [str(k)])} = 0;")
    it.extra["byvalue"] = True


def m_kmintoiter_next(tr, c):
    itl = tr.deref(c.args[0])
    it = itl.node
    if it.kind == "struct" and it.tag == "VecIntoIter":
        import models2
        return models2.m_vec_intoiter_next(tr, c)
    m = tr.deref(VLoc(Loc(it.f("map"), itl.idxs)))
    p, vals, keys = m.node.f("present"), m.node.f("vals"), m.node.f("keys")
    vis = it.f("visited")
    k = tr.tmp("usize", "pick")
    rem = " || ".join(f"({p.elem.name}{sub(m.idxs + [str(j)])} && !{vis.elem.name}{sub(itl.idxs + [str(j)])})" for j in range(p.cap))
    d = c.dest()
    n = d.node
    si, ni = n.vindex("Some"), n.vindex("None")
    dd = tr.lv(Loc(n.discr, d.idxs))
    cur = tr.lv(Loc(it.f("cur"), itl.idxs))
    tr.emit(f"if ({rem}) {{")
    tr.emit(f"  {k} = nondet_usize(); __CPROVER_assume({k} < {p.cap} && {p.elem.name}{sub(m.idxs + [k])} && !{vis.elem.name}{sub(itl.idxs + [k])});")
    tr.emit(f"  {vis.elem.name}{sub(itl.idxs + [k])} = 1; {cur} = {k}; {dd} = {si};")
    tr.emit(f"}} else {{ {dd} = {ni}; {cur} = 0; }}")
    tup = n.variants[si][1].fields[0]
    tr.copy(Loc(tup.fields[0], d.idxs), Loc(keys.elem, m.idxs + [cur]))
    tr.copy(Loc(tup.fields[1], d.idxs), Loc(vals.elem, m.idxs + [cur]))


REG.add("<IntoIter as Iterator>::next", m_kmintoiter_next, "by-value keyed map iterator: solver-chosen unvisited entry")
