"""Model library, part 5: revm-state / revm-primitives value types as grevm's glue code sees them.

  Address            -> small integer id                    U256 / B256 -> 64-bit integers (abstract width; equality, zero test,
  Bytecode           -> opaque id                                           checked/saturating arithmetic keep their meaning)
  AccountStatus      -> the real bitflags byte (constants copied from revm-state 12: Created 0x01, SelfDestructed 0x02, Touched 0x04,
                        LoadedAsNotExisting 0x08, Cold 0x10, SelfDestructedLocal 0x40, CreatedLocal 0x80)
  AccountInfo / Account / EvmStorageSlot -> the real field lists, parsed from the revm-state sources in the cargo registry
  EvmStorage / EvmState -> keyed maps (see mvmodels)

The accessor models below restate one-line revm-state functions (is_touched, is_created, is_empty, ...); they are listed
in evidence as trusted restatements."""
import glob
import os
import re
from translate import (Translator, Loc, VScalar, VRef, VLoc, VAgg, VUnit, VConst, TranslateError, StructN, ScalarN, UnitN, ArrN,
                       RefN, sub)
from models import model, rx, REG, self_loc, _opt_loc
from rtypes import parse_type

KECCAK_EMPTY = "((u64)1UL)"          # abstract value of the empty-code hash (B256::ZERO is 0)
FLAGS = {"Created": 0x01, "SelfDestructed": 0x02, "Touched": 0x04, "LoadedAsNotExisting": 0x08, "Cold": 0x10,
         "SelfDestructedLocal": 0x40, "CreatedLocal": 0x80}


def registry_root():
    c = sorted(glob.glob(os.path.expanduser("~/.cargo/registry/src/*/")))
    return c[0] if c else None


def extra_src_roots():
    r = registry_root()
    out = []
    for pat in ("revm-state-12*/src", "revm-context-18*/src", "revm-database-15*/src/states", "revm-context-interface-19*/src/result.rs"):
        out += sorted(glob.glob(os.path.join(r, pat)))
    return [p for p in out if os.path.isdir(p)]


def scalar(ctype):
    def f(tr, ty, name, dims, storage, g=None):
        return ScalarN(ty, name, dims, storage, ctype)
    return f


def t_bytecode(tr, ty, name, dims, storage, g=None):
    s = StructN(ty, name, dims, storage, "Bytecode")
    s.fields.append(ScalarN(None, name + "_id", dims, storage, "unsigned char"))
    s.names.append("id")
    return s


def unit(tr, ty, name, dims, storage, g=None):
    return UnitN(ty, name, dims, storage)


def type_overrides(wide="u64"):
    """wide: C type standing for U256 / B256 values (their width is abstract: only equality, zero tests and +/- matter)"""
    ov = {"Address": scalar("unsigned char"), "Uint": scalar(wide), "U256": scalar(wide), "B256": scalar(wide),
          "FixedBytes": scalar(wide), "StorageKey": scalar(wide), "StorageValue": scalar(wide),
          "AccountStatus": scalar("unsigned char"), "Bytecode": t_bytecode, "TransactionId": unit, "AccountId": unit,
          "Bytes": unit, "TxKind": unit, "AccessList": unit, "Either": unit}
    return ov


def consts():
    c = {}
    for k in ("KECCAK_EMPTY", "revm_primitives::KECCAK_EMPTY", "alloy_primitives::KECCAK256_EMPTY"):
        c[k] = KECCAK_EMPTY
    for k in ("Uint::ZERO", "U256::ZERO", "ruint::Uint::ZERO", "revm_primitives::alloy_primitives::Uint::ZERO",
              "revm_primitives::alloy_primitives::Uint::<256", "B256::ZERO", "FixedBytes::ZERO"):
        c[k] = "((u64)0UL)"
    c["Uint::MAX"] = "((u64)~(u64)0)"
    return c


def _acc(tr, v) -> Loc:
    loc = tr.deref(v) if not (isinstance(v, VLoc) and v.loc.node.kind == "struct") else v.loc
    while loc.node.kind == "ref":
        loc = tr.deref(VLoc(loc))
    return loc


def _status(tr, a: Loc) -> str:
    return tr.lv(Loc(a.node.f("status"), a.idxs))


def _flag_model(flag, negate=False):
    def m(tr, c):
        a = _acc(tr, c.args[0])
        c.ret(VScalar(f"(({_status(tr, a)} & {FLAGS[flag]}) != 0)", "_Bool"))
    return m


REG.add("Account::is_touched", _flag_model("Touched"), "revm-state: status.contains(Touched)")
REG.add("Account::is_selfdestructed", _flag_model("SelfDestructed"), "revm-state: status.contains(SelfDestructed)")
REG.add("Account::is_created", _flag_model("Created"), "revm-state: status.contains(Created)")
REG.add("Account::is_loaded_as_not_existing", _flag_model("LoadedAsNotExisting"), "revm-state: status.contains(LoadedAsNotExisting)")


@model("Account::mark_touch", doc="revm-state: status |= Touched")
def m_mark_touch(tr, c):
    a = _acc(tr, c.args[0])
    tr.emit(f"{_status(tr, a)} = {_status(tr, a)} | {FLAGS['Touched']};")


def _info_is_empty_code_hash(tr, info: Loc) -> str:
    return f"({tr.lv(Loc(info.node.f('code_hash'), info.idxs))} == {KECCAK_EMPTY})"


def _info_is_empty(tr, info: Loc) -> str:
    ch = tr.lv(Loc(info.node.f('code_hash'), info.idxs))
    return (f"(({ch} == {KECCAK_EMPTY} || {ch} == 0) && {tr.lv(Loc(info.node.f('balance'), info.idxs))} == 0 && "
            f"{tr.lv(Loc(info.node.f('nonce'), info.idxs))} == 0)")


@model("AccountInfo::is_empty_code_hash", doc="revm-state: code_hash == KECCAK_EMPTY")
def m_is_empty_code_hash(tr, c):
    c.ret(VScalar(_info_is_empty_code_hash(tr, _acc(tr, c.args[0])), "_Bool"))


@model("AccountInfo::is_empty", doc="revm-state: (code_hash empty or zero) && balance == 0 && nonce == 0")
def m_info_is_empty(tr, c):
    c.ret(VScalar(_info_is_empty(tr, _acc(tr, c.args[0])), "_Bool"))


@model("Account::is_empty", doc="revm-state: info.is_empty()")
def m_acc_is_empty(tr, c):
    a = _acc(tr, c.args[0])
    c.ret(VScalar(_info_is_empty(tr, Loc(a.node.f("info"), a.idxs)), "_Bool"))


@model("<AccountInfo as Default>::default", "AccountInfo::default", doc="revm-state: balance 0, nonce 0, code_hash KECCAK_EMPTY, code Some(default bytecode)")
def m_info_default(tr, c):
    d = c.dest()
    n = d.node
    tr.emit(f"{tr.lv(Loc(n.f('balance'), d.idxs))} = 0; {tr.lv(Loc(n.f('nonce'), d.idxs))} = 0; {tr.lv(Loc(n.f('code_hash'), d.idxs))} = {KECCAK_EMPTY};")
    code = n.f("code")
    if code.kind == "enum":
        tr.emit(f"{tr.lv(Loc(code.discr, d.idxs))} = {code.vindex('Some')}; {tr.lv(Loc(code.variants[code.vindex('Some')][1].fields[0].fields[0], d.idxs))} = 0;")


@model("AccountInfo::has_no_code_and_nonce", doc="revm-state: is_empty_code_hash() && nonce == 0")
def m_no_code_nonce(tr, c):
    info = _acc(tr, c.args[0])
    c.ret(VScalar(f"({_info_is_empty_code_hash(tr, info)} && {tr.lv(Loc(info.node.f('nonce'), info.idxs))} == 0)", "_Bool"))


@model("<Uint as TryInto>::try_into", "<Uint as TryFrom>::try_from", "Uint::try_into", doc="U256 -> integer: always fits at the abstract width")
def m_u_try_into(tr, c):
    d = c.dest()
    n = d.node
    tr.emit(f"{tr.lv(Loc(n.discr, d.idxs))} = {n.vindex('Ok')};")
    okf = n.variants[n.vindex('Ok')][1].fields[0]
    tr.emit(f"{tr.lv(Loc(okf, d.idxs))} = ({okf.ctype})({_v(tr, c.args[0])});")


@model("EvmStorageSlot::is_changed", doc="revm-state: original_value != present_value")
def m_slot_changed(tr, c):
    s = _acc(tr, c.args[0])
    c.ret(VScalar(f"({tr.lv(Loc(s.node.f('original_value'), s.idxs))} != {tr.lv(Loc(s.node.f('present_value'), s.idxs))})", "_Bool"))


@model("Account::changed_storage_slots", doc="revm-state: storage.iter().filter(|(_, slot)| slot.is_changed()) -- every changed slot once, solver-chosen order")
def m_changed_slots(tr, c):
    a = _acc(tr, c.args[0])
    st = Loc(a.node.f("storage"), a.idxs)
    import mvmodels
    from translate import VPyClosure
    d = None
    try:
        d = c.dest()
    except TranslateError:
        pass
    if d is None or d.node.kind != "struct":
        tr.tmpn += 1
        proto = mvmodels.t_kmapiter(tr, parse_type("Iter<U256, EvmStorageSlot>"), f"csproto{tr.tmpn}", [], tr.cur.storage, {})
        d = c.dest(like=VLoc(Loc(proto, [])))
    it = d.node
    if it.tag == "Filter":
        # the concrete type behind `impl Iterator` is Filter<hash_map::Iter, closure>: the filtering is done by pre-marking
        # unchanged slots as visited, the adaptor's predicate is then constantly true
        def always(tr_, args, dest):
            tr_.emit(f"{tr_.lv(dest)} = 1;")
        it.extra["pyval"] = VPyClosure(always)
        d = Loc(it.f("inner"), d.idxs)
        it = d.node
    tr.store(Loc(it.f("map"), d.idxs), VRef(st.node, st.idxs))
    vis = it.f("visited")
    p, vals = st.node.f("present"), st.node.f("vals")
    for k in range(vis.cap):
        # unchanged slots are pre-marked as visited: the iterator only yields changed ones
        slot = Loc(vals.elem, st.idxs + [str(k)])
        tr.emit(f"{vis.elem.name}{sub(d.idxs + [str(k)])} = !({tr.lv(Loc(slot.node.f('original_value'), slot.idxs))} != {tr.lv(Loc(slot.node.f('present_value'), slot.idxs))});")


@model(rx(r"<(Uint|Address|FixedBytes|B256|U256) as (PartialEq|PartialOrd)>::(eq|ne|lt|le|gt|ge)"), doc="value comparison on the abstract integers")
def m_val_rel(tr, c):
    def val(v):
        try:
            return tr.as_scalar(v).expr
        except TranslateError:
            return tr.as_scalar(VLoc(tr.deref(v))).expr
    op = {"eq": "==", "ne": "!=", "lt": "<", "le": "<=", "gt": ">", "ge": ">="}[c.key.split("::")[-1]]
    c.ret(VScalar(f"(({val(c.args[0])}) {op} ({val(c.args[1])}))", "_Bool"))


def _v(tr, v):
    try:
        return tr.as_scalar(v).expr
    except TranslateError:
        return tr.as_scalar(VLoc(tr.deref(v))).expr


@model("Uint::is_zero", "FixedBytes::is_zero", rx(r"ruint::.*::is_zero"), doc="== 0")
def m_is_zero(tr, c):
    c.ret(VScalar(f"(({_v(tr, c.args[0])}) == 0)", "_Bool"))


@model("Uint::checked_add", rx(r"ruint::add::(<impl Uint>::)?checked_add"), "ruint::add::checked_add", doc="checked_add on the abstract width: None on overflow")
def m_u_checked_add(tr, c):
    a, b = _v(tr, c.args[0]), _v(tr, c.args[1])
    d = c.dest()
    n = d.node
    si, ni = n.vindex("Some"), n.vindex("None")
    ct = n.variants[si][1].fields[0].ctype
    t = tr.tmp(ct, "sum")
    tr.emit(f"{t} = ({ct})(({a}) + ({b}));")
    tr.emit(f"{tr.lv(Loc(n.discr, d.idxs))} = ({t} < ({a})) ? {ni} : {si}; {tr.lv(Loc(n.variants[si][1].fields[0], d.idxs))} = {t};")


@model("Uint::checked_sub", rx(r"ruint::add::(<impl Uint>::)?checked_sub"), "ruint::add::checked_sub")
def m_u_checked_sub(tr, c):
    a, b = _v(tr, c.args[0]), _v(tr, c.args[1])
    d = c.dest()
    n = d.node
    si, ni = n.vindex("Some"), n.vindex("None")
    tr.emit(f"{tr.lv(Loc(n.discr, d.idxs))} = (({a}) < ({b})) ? {ni} : {si}; {tr.lv(Loc(n.variants[si][1].fields[0], d.idxs))} = (u64)(({a}) - ({b}));")


def _dest_ct(c, default="u64"):
    """C type of the abstract U256 at the call's destination (the abstract width is a per-check choice)"""
    try:
        d = c.dest()
    except TranslateError:
        d = None
    if d is not None and d.node.kind == "scalar":
        return d.node.ctype
    return default


@model("Uint::saturating_add", rx(r"ruint::add::(<impl Uint>::)?saturating_add"), "ruint::add::saturating_add", doc="saturating + at the abstract width")
def m_u_sat_add(tr, c):
    a, b = _v(tr, c.args[0]), _v(tr, c.args[1])
    ct = _dest_ct(c)
    c.ret(VScalar(f"((({ct})(({a}) + ({b})) < ({ct})({a})) ? ({ct})~({ct})0 : ({ct})(({a}) + ({b})))", ct))


@model("Uint::saturating_sub", rx(r"ruint::add::(<impl Uint>::)?saturating_sub"), "ruint::add::saturating_sub", doc="saturating - at the abstract width")
def m_u_sat_sub(tr, c):
    a, b = _v(tr, c.args[0]), _v(tr, c.args[1])
    ct = _dest_ct(c)
    c.ret(VScalar(f"((({a}) > ({b})) ? ({ct})(({a}) - ({b})) : ({ct})0)", ct))


@model(rx(r"<Uint as (Add|Sub)>::(add|sub)"), rx(r"ruint::.*<impl (Add|Sub)[^>]*>::(add|sub)"), doc="wrapping-checked +/- (panics on overflow like ruint in debug builds)")
def m_u_addsub(tr, c):
    a, b = _v(tr, c.args[0]), _v(tr, c.args[1])
    op = "+" if c.key.endswith("add") else "-"
    c.ret(VScalar(f"((u64)(({a}) {op} ({b})))", "u64"))


@model("Uint::from", "<Uint as From>::from", rx(r"ruint::from::<impl From<(u64|usize|u8|u32|u128)> for Uint>::from"), doc="integer -> U256 (abstract width)")
def m_u_from(tr, c):
    d = c.dest()
    ct = d.node.ctype if d is not None and d.node.kind == "scalar" else "u64"
    c.ret(VScalar(f"(({ct})({_v(tr, c.args[0])}))", ct))


@model("Uint::min", "Uint::max", rx(r"<Uint as Ord>::(min|max)"))
def m_u_minmax(tr, c):
    a, b = _v(tr, c.args[0]), _v(tr, c.args[1])
    op = "<" if c.key.endswith("min") else ">"
    c.ret(VScalar(f"((({a}) {op} ({b})) ? ({a}) : ({b}))", "u64"))


@model("<impl Iterator as Iterator>::next", doc="next() on an opaque `impl Iterator` value: dispatched on the model layout")
def m_opaque_next(tr, c):
    import itermodels
    it = self_loc(tr, c.args[0])
    itermodels.emit_next(tr, c.inst, it, c.dest())


@model("<impl Iterator as IntoIterator>::into_iter", doc="identity")
def m_opaque_into_iter(tr, c):
    c.ret(c.args[0])


def install(tr):
    pass


def _info_val_loc(tr, v) -> Loc:
    return v.loc if isinstance(v, VLoc) else tr.deref(v)


@model("AccountInfo::without_code", doc="revm-state: the same account info with code = None (balance, nonce, code_hash kept)")
def m_info_without_code(tr, c):
    d = c.dest()
    tr.copy(d, _info_val_loc(tr, c.args[0]))
    code = d.node.f("code")
    if code.kind == "enum":
        tr.emit(f"{tr.lv(Loc(code.discr, d.idxs))} = {code.vindex('None')};")


@model("AccountInfo::with_balance", doc="revm-state: the same account info with the balance replaced")
def m_info_with_balance(tr, c):
    d = c.dest()
    tr.copy(d, _info_val_loc(tr, c.args[0]))
    tr.store(Loc(d.node.f("balance"), d.idxs), c.args[1])
