"""Model library, part 4: lazy iterator adaptors (copied / cloned / filter / map) and consumers (max / min / any / all / count ...).

An adaptor value is a struct {inner, ...}; closures handed to filter/map are remembered on the storage node (static shape:
one adaptor local is built at exactly one program point).  `next` on an adaptor calls `next` of the inner iterator;
consumers unroll `next` up to the inner container's capacity + 1."""
from translate import (Translator, Loc, VScalar, VRef, VLoc, VAgg, VUnit, VConst, TranslateError, StructN, ScalarN, UnitN, ArrN,
                       RefN, sub)
from models import model, rx, REG, self_loc
from rtypes import parse_type


class ICtx:
    """minimal CallCtx stand-in for calling a model from Python"""

    def __init__(self, tr, inst, key, args, dest_loc):
        self.tr, self.inst, self.key, self.args, self._d = tr, inst, key, args, dest_loc
        self.term = None
        self.func = key

    def dest(self, like=None):
        return self._d

    def dest_ty(self):
        return None

    def ret(self, v):
        if self._d is None or self._d.node.kind == "unit":
            return
        self.tr.store(self._d, v)

    def gargs(self):
        return []


def t_adaptor(tag, extra_fields=()):
    def f(tr, ty, name, dims, storage, g):
        s = StructN(ty, name, dims, storage, tag)
        s.fields.append(tr.alloc(ty.args[0], name + "_inner", dims, storage, g))
        s.names.append("inner")
        return s
    return f


def install(tr):
    tm = tr.type_models
    for t in ("Copied", "Cloned", "Filter", "Map", "Rev", "Enumerate"):
        tm.setdefault(t, t_adaptor(t))


def _iter_cap(node) -> int:
    """upper bound on the number of items an iterator value can yield"""
    if node.kind == "struct":
        if node.tag in ("Copied", "Cloned", "Filter", "Map", "Rev", "Enumerate"):
            return _iter_cap(node.f("inner"))
        for nm in ("visited",):
            if nm in node.names:
                return node.f(nm).cap
        if node.tag == "VecIntoIter":
            return 4
        if node.tag == "BRange":
            return 8
        if node.tag == "Range":
            return 8
    return 4


@model("<Iter as Iterator>::copied", "<Iter as Iterator>::cloned", "<Iter as Iterator>::filter", "<Iter as Iterator>::map",
       rx(r"<[A-Za-z]+ as Iterator>::(copied|cloned|filter|map)"), rx(r"(core::iter::)?Iterator::(copied|cloned|filter|map)"),
       doc="lazy iterator adaptors")
def m_adapt(tr, c):
    d = c.dest()
    src = c.args[0]
    tr.copy(Loc(d.node.f("inner"), d.idxs), src.loc if isinstance(src, VLoc) else tr.deref(src))
    if len(c.args) > 1:
        d.node.extra["pyval"] = c.args[1]


def emit_next(tr, inst, it: Loc, dest: Loc):
    """dest := it.next()"""
    n = it.node
    if n.kind == "struct" and n.tag in ("Copied", "Cloned"):
        inner = Loc(n.f("inner"), it.idxs)
        tr.tmpn += 1
        tmp = _alloc_opt_like(tr, inst, inner, f"itn{tr.tmpn}")
        emit_next(tr, inst, inner, Loc(tmp, []))
        dn = dest.node
        si, ni = dn.vindex("Some"), dn.vindex("None")
        tr.emit(f"if ({tr.lv(Loc(tmp.discr, []))} == {tmp.vindex('Some')}) {{ {tr.lv(Loc(dn.discr, dest.idxs))} = {si};")
        item = Loc(tmp.variants[tmp.vindex('Some')][1].fields[0], [])
        if item.node.kind == "ref":
            item = tr.deref(VLoc(item))
        tr.copy(Loc(dn.variants[si][1].fields[0], dest.idxs), item)
        tr.emit(f"}} else {{ {tr.lv(Loc(dn.discr, dest.idxs))} = {ni}; }}")
        return
    if n.kind == "struct" and n.tag == "Filter":
        inner = Loc(n.f("inner"), it.idxs)
        pred = n.extra.get("pyval")
        if pred is None:
            raise TranslateError(f"filter predicate of {n.name} unknown")
        cap = _iter_cap(inner.node)
        dn = dest.node
        si, ni = dn.vindex("Some"), dn.vindex("None")
        tr.tmpn += 1
        found = tr.tmp("_Bool", "found")
        keep = tr.alloc(parse_type("bool"), f"keep{tr.tmpn}", [], tr.cur.storage)
        tr.emit(f"{found} = 0; {tr.lv(Loc(dn.discr, dest.idxs))} = {ni};")
        for _r in range(cap + 1):
            tr.emit(f"if (!{found}) {{")
            emit_next(tr, inst, inner, dest)
            tr.emit(f"if ({tr.lv(Loc(dn.discr, dest.idxs))} == {ni}) {{ {found} = 1; }} else {{")
            tr.call_closure(inst, pred, [VRef(dn.variants[si][1].fields[0], dest.idxs)], Loc(keep, []))
            tr.emit(f"if ({keep.name}) {{ {found} = 1; }} }}")
            tr.emit("}")
        tr.emit(f'__CPROVER_assert({found}, "BOUND filter scan within iterator capacity");')
        return
    if n.kind == "struct" and n.tag == "Map":
        inner = Loc(n.f("inner"), it.idxs)
        f = n.extra.get("pyval")
        tr.tmpn += 1
        tmp = _alloc_opt_like(tr, inst, inner, f"itn{tr.tmpn}")
        emit_next(tr, inst, inner, Loc(tmp, []))
        dn = dest.node
        si, ni = dn.vindex("Some"), dn.vindex("None")
        tr.emit(f"if ({tr.lv(Loc(tmp.discr, []))} == {tmp.vindex('Some')}) {{ {tr.lv(Loc(dn.discr, dest.idxs))} = {si};")
        tr.call_closure(inst, f, [VLoc(Loc(tmp.variants[tmp.vindex('Some')][1].fields[0], []))], Loc(dn.variants[si][1].fields[0], dest.idxs))
        tr.emit(f"}} else {{ {tr.lv(Loc(dn.discr, dest.idxs))} = {ni}; }}")
        return
    # base iterators: dispatch to the registered model for their tag
    tag = getattr(n, "tag", None)
    if tag == "KMapIter" and n.extra.get("byvalue"):
        return REG.lookup("<IntoIter as Iterator>::next")(tr, ICtx(tr, inst, "<IntoIter as Iterator>::next", [VRef(it.node, it.idxs)], dest))
    key = {"SetIter": "<Iter as Iterator>::next", "KMapIter": "Iter::next:KMapIter", "Range": "<Range as Iterator>::next",
           "BRange": "<Range as Iterator>::next"}.get(tag)
    if key is None:
        raise TranslateError(f"no next() model for iterator {n.name} (tag {tag})")
    m = REG.lookup(key)
    m(tr, ICtx(tr, inst, key, [VRef(it.node, it.idxs)], dest))


def _item_node(tr, inst, it: Loc, name):
    """storage for one item of iterator `it` (by structure of the iterator)"""
    n = it.node
    if n.tag == "SetIter":
        s = tr.deref(VLoc(Loc(n.f("set"), it.idxs)))
        r = RefN(None, name, [], tr.cur.storage)
        return r
    raise TranslateError(f"item layout of iterator {n.name}")


def _alloc_opt_like(tr, inst, it: Loc, name):
    """Option<Item> storage for the iterator at `it`"""
    n = it.node
    if n.kind == "struct" and n.tag == "SetIter":
        e = tr.make_enum(None, name, [], tr.cur.storage, [("None", []), ("Some", [])])
        e.variants[1][1].fields.append(RefN(None, name + "_Some_0", [], tr.cur.storage))
        e.variants[1][1].names.append("0")
        return e
    if n.kind == "struct" and n.tag in ("Copied", "Cloned"):
        inner = _alloc_opt_like(tr, inst, Loc(n.f("inner"), it.idxs), name + "i")
        raise TranslateError("nested copied() adaptor item layout")
    if n.kind == "struct" and n.tag == "Range":
        return tr.alloc(parse_type("Option<usize>"), name, [], tr.cur.storage)
    if n.kind == "struct" and n.tag == "KMapIter":
        e = tr.make_enum(None, name, [], tr.cur.storage, [("None", []), ("Some", [])])
        tup = StructN(None, name + "_Some_0", [], tr.cur.storage)
        if n.extra.get("byvalue"):
            m = tr.deref(VLoc(Loc(n.f("map"), it.idxs)))
            tup.fields.append(tr.clone(m.node.f("keys").elem, name + "_k", [], tr.cur.storage))
            tup.fields.append(tr.clone(m.node.f("vals").elem, name + "_v", [], tr.cur.storage))
        else:
            tup.fields.append(RefN(None, name + "_kr", [], tr.cur.storage))
            tup.fields.append(RefN(None, name + "_vr", [], tr.cur.storage))
        tup.names += ["0", "1"]
        e.variants[1][1].fields.append(tup)
        e.variants[1][1].names.append("0")
        return e
    raise TranslateError(f"Option<Item> layout for iterator {n.name} (tag {getattr(n, 'tag', None)})")


@model(rx(r"<(Copied|Cloned|Filter|Map) as Iterator>::next"), doc="adaptor next()")
def m_adaptor_next(tr, c):
    it = self_loc(tr, c.args[0])
    emit_next(tr, c.inst, it, c.dest())


@model(rx(r"<(Copied|Cloned|Filter|Map|Iter|Range) as Iterator>::(max|min)"), rx(r"(core::iter::)?Iterator::(max|min)"),
       doc="Iterator::max / min over integer items: unrolled next() up to the iterator's capacity")
def m_iter_max(tr, c):
    v = c.args[0]
    it = v.loc if isinstance(v, VLoc) else tr.deref(v)
    d = c.dest()
    dn = d.node
    si, ni = dn.vindex("Some"), dn.vindex("None")
    acc = Loc(dn.variants[si][1].fields[0], d.idxs)
    if acc.node.kind != "scalar":
        raise TranslateError("Iterator::max over non-integer items")
    tr.tmpn += 1
    tmp = tr.clone(dn, f"itm{tr.tmpn}", [], tr.cur.storage)
    done = tr.tmp("_Bool", "done")
    op = ">=" if c.key.endswith("max") else "<"
    tr.emit(f"{tr.lv(Loc(dn.discr, d.idxs))} = {ni}; {done} = 0;")
    cap = _iter_cap(it.node)
    for _r in range(cap + 1):
        tr.emit(f"if (!{done}) {{")
        emit_next(tr, c.inst, it, Loc(tmp, []))
        item = tr.lv(Loc(tmp.variants[si][1].fields[0], []))
        tr.emit(f"if ({tr.lv(Loc(tmp.discr, []))} == {ni}) {{ {done} = 1; }} else if ({tr.lv(Loc(dn.discr, d.idxs))} == {ni} || {item} {op} {tr.lv(acc)}) "
                f"{{ {tr.lv(Loc(dn.discr, d.idxs))} = {si}; {tr.lv(acc)} = {item}; }}")
        tr.emit("}")
    tr.emit(f'__CPROVER_assert({done}, "BOUND Iterator::max within iterator capacity");')
