"""MIR -> pointer-free C translator (engine E1).

References are resolved at translation time to a static storage node plus run-time index variables, every
grevm callee is inlined, every other callee must have a model (models.py) -- otherwise TranslateError
(=> the check is inconclusive, exit 2).
"""
import re
import hashlib
from dataclasses import dataclass, field
from typing import List, Dict, Optional, Tuple, Any, Callable

import mirparse
from mirparse import Function, Place, Operand, Rvalue, Stmt, Term
from rtypes import Ty, parse_type, strip_generics, generic_args, UNIT
import srcdefs


def split_top_args(s_: str):
    from mirparse import split_top
    return split_top(s_, ",")


class TranslateError(Exception):
    pass


# ---------------------------------------------------------------------------------------------
# storage nodes
# ---------------------------------------------------------------------------------------------

class SNode:
    kind = "?"

    def __init__(self, ty: Optional[Ty], name: str, dims: List[int], storage: "Storage"):
        self.ty = ty
        self.name = name
        self.dims = list(dims)
        self.storage = storage

    @property
    def ndims(self):
        return len(self.dims)

    def leaves(self):
        return []


class ScalarN(SNode):
    kind = "scalar"

    def __init__(self, ty, name, dims, storage, ctype):
        super().__init__(ty, name, dims, storage)
        self.ctype = ctype
        storage.declare(ctype, name, dims)


class RefN(SNode):
    kind = "ref"

    def __init__(self, ty, name, dims, storage):
        super().__init__(ty, name, dims, storage)
        self.target: Optional[SNode] = None
        self.idxnames: List[str] = []
        self.offname: Optional[str] = None     # C variable holding a sub-slice offset, when some value stored here carries one

    def need_off(self):
        if self.offname is None:
            self.offname = f"{self.name}_off"
            self.storage.declare("usize", self.offname, self.dims)
        return self.offname

    def set_target(self, target: SNode, who=""):
        if self.target is None:
            self.target = target
            for k in range(target.ndims):
                nm = f"{self.name}_i{k}"
                self.idxnames.append(nm)
                self.storage.declare("usize", nm, self.dims)
        elif self.target is not target:
            raise TranslateError(
                f"reference {self.name} would point to two different static shapes "
                f"({self.target.name} / {target.name}) {who}")


class UnitN(SNode):
    kind = "unit"


class StructN(SNode):
    kind = "struct"

    def __init__(self, ty, name, dims, storage, tag=None):
        super().__init__(ty, name, dims, storage)
        self.fields: List[SNode] = []
        self.names: List[str] = []
        self.tag = tag          # model tag ('Mutex', 'Atomic', 'Set', ...) or None
        self.extra: Dict[str, Any] = {}

    def f(self, name: str) -> SNode:
        return self.fields[self.names.index(name)]


class EnumN(SNode):
    kind = "enum"

    def __init__(self, ty, name, dims, storage):
        super().__init__(ty, name, dims, storage)
        self.discr: Optional[ScalarN] = None
        self.variants: List[Tuple[str, StructN]] = []
        self.discr_values: Optional[List[int]] = None

    def vindex(self, vname) -> int:
        if isinstance(vname, int):
            return vname
        vname = vname.split("::")[-1]
        for i, (n, _s) in enumerate(self.variants):
            if n == vname:
                return i
        raise TranslateError(f"enum {self.ty} has no variant {vname}")


class ArrN(SNode):
    kind = "arr"

    def __init__(self, ty, name, dims, storage, cap):
        super().__init__(ty, name, dims, storage)
        self.cap = cap
        self.len: Optional[ScalarN] = None
        self.elem: Optional[SNode] = None


@dataclass
class Loc:
    node: SNode
    idxs: List[str]


# values ----------------------------------------------------------------------------------------

@dataclass
class VScalar:
    expr: str
    ctype: str = "usize"


@dataclass
class VRef:
    target: SNode
    idxs: List[str]
    off: Optional[str] = None     # sub-slice view &v[off..]: element offset into the target array (only slice models understand it)


@dataclass
class VLoc:
    loc: Loc


@dataclass
class VAgg:
    fields: List[Any]
    variant: Any = None      # enum variant name / index
    names: Optional[List[str]] = None
    ty: Optional[Ty] = None


@dataclass
class VUnit:
    pass


@dataclass
class VConst:
    text: str


@dataclass
class VPyClosure:
    """harness-defined closure: fn(tr, args, dest_loc) emits C"""
    fn: Any


class Storage:
    def __init__(self, prefix: str, is_global: bool):
        self.prefix = prefix
        self.is_global = is_global
        self.decls: List[Tuple[str, str, List[int]]] = []
        self.names = set()

    def declare(self, ctype, name, dims):
        if name in self.names:
            raise TranslateError(f"duplicate C name {name}")
        self.names.add(name)
        self.decls.append((ctype, name, list(dims)))

    def render(self, indent="") -> List[str]:
        out = []
        for ctype, name, dims in self.decls:
            d = "".join(f"[{x}]" for x in dims)
            out.append(f"{indent}{ctype} {name}{d};")
        return out


CTYPES = {"usize": "usize", "u64": "u64", "isize": "isize", "i64": "long", "u32": "unsigned int", "i32": "int",
          "u16": "unsigned short", "i16": "short", "u8": "unsigned char", "i8": "signed char", "bool": "_Bool",
          "char": "unsigned int", "u128": "unsigned __int128", "i128": "__int128", "f64": "double", "f32": "float"}


def cident(s: str) -> str:
    return re.sub(r"[^A-Za-z0-9_]", "_", s)


def sub(idxs: List[str]) -> str:
    return "".join(f"[{i}]" for i in idxs)


# ---------------------------------------------------------------------------------------------

class FnInstance:
    def __init__(self, tr: "Translator", fn: Function, uid: int, thread: "ThreadCtx"):
        self.tr = tr
        self.fn = fn
        self.uid = uid
        self.thread = thread
        self.locals: Dict[int, SNode] = {}
        self.ret_label = f"L{uid}_ret"
        self.tys: Dict[int, Ty] = {}
        self.subst: Dict[str, Any] = {}   # generic parameter name -> Ty (unused: generics stay abstract)

    def label(self, bb: int) -> str:
        return f"L{self.uid}_bb{bb}"

    def local_ty(self, i: int) -> Ty:
        if i not in self.tys:
            self.tys[i] = self.tr.parse_ty(self.fn.locals[i])
        return self.tys[i]


class ThreadCtx:
    """One C function (a harness thread or main): owns its local storage and output lines."""

    def __init__(self, tr: "Translator", name: str, tid: int):
        self.tr = tr
        self.name = name
        self.tid = tid
        self.storage = Storage(name, False)
        self.lines: List[str] = []
        self.held_locks: List[str] = []

    def emit(self, s: str):
        self.lines.append("  " + s)

    def label(self, l: str):
        self.lines.append(f" {l}:;")


class Translator:
    def __init__(self, mir_text: str, sources: srcdefs.Sources, cfg: Dict[str, Any]):
        self.fns = mirparse.parse_mir(mir_text)
        for extra in cfg.get("extra_mir", []):
            for k_, f_ in mirparse.parse_mir(extra).items():
                self.fns.setdefault(k_, f_)          # a dependency's MIR (e.g. revm-database): the oracle side of differential harnesses
        self.src = sources
        self.cfg = cfg
        self.cap = cfg.get("cap", 3)                     # default container capacity
        self.caps: Dict[str, int] = cfg.get("caps", {})  # per type-key / field-name capacity
        self.type_overrides: Dict[str, Callable] = cfg.get("type_overrides", {})
        self.consts: Dict[str, str] = cfg.get("consts", {})
        self.noop_re = [re.compile(p) for p in cfg.get("noops", [])]
        self.dead_re = [re.compile(p) for p in cfg.get("dead_calls", [])]
        self.globals = Storage("g", True)
        self.threads: List[ThreadCtx] = []
        self.cur: Optional[ThreadCtx] = None
        self.uid = 0
        self.encoded: Dict[str, str] = {}      # fn name -> sha of MIR text
        self.models_used: Dict[str, int] = {}
        self.callmap: Dict[str, Function] = {}
        self.closures: Dict[str, Function] = {}
        self.stack: List[str] = []
        self.spin_loops: Dict[str, int] = cfg.get("spin_loops", {})   # 'fnkey' -> bound (assume)
        self.bound_loops: Dict[str, int] = cfg.get("bound_loops", {})  # 'fnkey' -> bound (assert)
        self.panic_ok = [re.compile(p) for p in cfg.get("panic_ok", [])]
        self.ncounters = 0
        self.models = None
        self.type_models: Dict[str, Callable] = {}
        self.tmpn = 0
        self.aliases = dict(sources.aliases)
        self.aliases.update(cfg.get("aliases", {}))
        self._index_functions()
        import models
        models.install(self)

    # -- function index --------------------------------------------------------------------------
    _IMPL_RE = re.compile(r"<impl at ([^:>]+):(\d+):\d+: \d+:\d+>")

    def _index_functions(self):
        for name, fn in self.fns.items():
            key = self._def_key(name)
            if key:
                self.callmap.setdefault(key, fn)
            if fn.nargs >= 1:
                t1 = fn.locals.get(1, "")
                m = re.search(r"\{closure@[^}]*\}", t1)
                if m and "{closure#" in name:
                    self.closures[m.group(0)] = fn

    def _def_key(self, name: str) -> Optional[str]:
        """canonical call key for a definition name (impl-at positions resolved through the sources)."""
        m = self._IMPL_RE.search(name)
        if m:
            file = m.group(1)
            rel = file[4:] if file.startswith("src/") else file
            try:
                ty, trait = self.src.impl_at(rel, int(m.group(2)))
            except Exception:
                return None
            rest = name[m.end():]          # '::method' / '::method::{closure#0}'
            rest = strip_generics(rest)
            from rtypes import ALIASES
            if ty in ALIASES:
                ty = ALIASES[ty][0]
            if trait:
                return f"<{ty} as {trait}>{rest}"
            return f"{ty}{rest}"
        # free function: keep the last two path segments and the last one
        return strip_generics(name)

    def find_fn(self, callee: str) -> Optional[Function]:
        key = strip_generics(callee)
        if key in self.callmap:
            return self.callmap[key]
        # try suffix match on module-qualified free functions
        def modpath(p):
            return all(seg and (seg[0].islower() or seg[0] == "_") and "<" not in seg and "{" not in seg for seg in p.split("::"))
        cands = []
        for k, f in self.callmap.items():
            if k.endswith("::" + key) and modpath(k[:-len(key) - 2]):
                cands.append(f)
            elif key.endswith("::" + k) and modpath(key[:-len(k) - 2]):
                cands.append(f)
        if len(cands) == 1:
            return cands[0]
        return None

    # -- types -----------------------------------------------------------------------------------
    def parse_ty(self, s: str) -> Ty:
        return parse_type(s)

    def ctype_of(self, ty: Ty) -> Optional[str]:
        if ty.kind == "path" and not ty.args and ty.name in CTYPES:
            return CTYPES[ty.name]
        return None

    def capacity(self, ty: Ty, name: str) -> int:
        for k, v in self.caps.items():
            if k == ty.key() or k == ty.name or name.endswith(k):
                return v
        return self.cap

    def alloc(self, ty: Ty, name: str, dims: List[int], storage: Storage, generics: Dict[str, Ty] = None) -> SNode:
        generics = generics or {}
        name = cident(name)
        if ty.kind == "path" and ty.name in generics and not ty.args:
            return self.alloc(generics[ty.name], name, dims, storage)
        ov = self.type_overrides.get(ty.key()) or self.type_overrides.get(ty.name if ty.kind in ("path", "param") else "")
        if ov:
            return ov(self, ty, name, dims, storage)
        ct = self.ctype_of(ty)
        if ct:
            return ScalarN(ty, name, dims, storage, ct)
        if ty.kind in ("ref", "ptr"):
            return RefN(ty, name, dims, storage)
        if ty.kind == "never":
            return UnitN(ty, name, dims, storage)
        if ty.kind == "tuple":
            if not ty.args:
                return UnitN(ty, name, dims, storage)
            s = StructN(ty, name, dims, storage)
            for i, a in enumerate(ty.args):
                s.fields.append(self.alloc(a, f"{name}_{i}", dims, storage, generics))
                s.names.append(str(i))
            return s
        if ty.kind == "array":
            n = int(re.sub(r"[^0-9]", "", ty.name) or "0")
            a = ArrN(ty, name, dims, storage, n)
            a.elem = self.alloc(ty.args[0], name + "_e", dims + [n], storage, generics)
            return a
        if ty.kind == "path":
            tm = self.type_models.get(ty.name)
            if tm:
                return tm(self, ty, name, dims, storage, generics)
            if ty.name in self.aliases:
                al = self.aliases[ty.name]
                if al != ty.name:
                    t2 = parse_type(al)
                    if t2.kind == "path" and not t2.args and ty.args:
                        t2 = Ty("path", name=t2.name, args=ty.args)
                    return self.alloc(t2, name, dims, storage, generics)
            d = self.src.defs.get(ty.name)
            if d:
                if generics and ty.args and any(a.kind == "path" and not a.args and a.name in generics for a in ty.args):
                    # a generic parameter of the enclosing definition used as a type argument: substitute it
                    ty = Ty("path", name=ty.name, args=[generics[a.name] if (a.kind == "path" and not a.args and a.name in generics) else a for a in ty.args])
                return self.alloc_def(d, ty, name, dims, storage)
        for pat in self.cfg.get("opaque_types", []):
            if re.search(pat, getattr(ty, "full", "") or ty.name or ""):
                return UnitN(ty, name, dims, storage)
        raise TranslateError(f"no layout for type {ty} ({name})")

    def alloc_def(self, d: srcdefs.Def, ty: Ty, name, dims, storage) -> SNode:
        g = {}
        for i, gp in enumerate(d.generics):
            if i < len(ty.args):
                g[gp] = ty.args[i]
        if d.kind == "struct":
            s = StructN(ty, name, dims, storage)
            for fname, ftype in d.fields:
                fty = parse_type(ftype)
                s.fields.append(self.alloc(fty, f"{name}_{fname}", dims, storage, g))
                s.names.append(fname)
            return s
        e = EnumN(ty, name, dims, storage)
        e.discr = ScalarN(None, name + "_d", dims, storage, "unsigned char")
        dv = []
        nxt = 0
        for vname, vfields, disc in d.variants:
            vs = StructN(None, f"{name}_{vname}", dims, storage)
            for fname, ftype in vfields:
                vs.fields.append(self.alloc(parse_type(ftype), f"{name}_{vname}_{fname}", dims, storage, g))
                vs.names.append(fname)
            e.variants.append((vname, vs))
            if disc is not None:
                nxt = disc
            dv.append(nxt)
            nxt += 1
        if dv != list(range(len(dv))):
            e.discr_values = dv
        return e

    def make_enum(self, ty, name, dims, storage, variants: List[Tuple[str, List[Ty]]], generics=None) -> EnumN:
        e = EnumN(ty, name, dims, storage)
        e.discr = ScalarN(None, name + "_d", dims, storage, "unsigned char")
        for vname, ftys in variants:
            vs = StructN(None, f"{name}_{vname}", dims, storage)
            for i, ft in enumerate(ftys):
                vs.fields.append(self.alloc(ft, f"{name}_{vname}_{i}", dims, storage, generics))
                vs.names.append(str(i))
            e.variants.append((vname, vs))
        return e

    def clone(self, node: SNode, name: str, dims: List[int], storage: Storage) -> SNode:
        """fresh storage with the same layout as node (dims replaced by `dims` + node's own inner dims)."""
        return self._clone(node, cident(name), dims, storage, node.ndims)

    def _clone(self, node, name, dims, storage, strip):
        nd = dims + node.dims[strip:]
        if node.kind == "scalar":
            return ScalarN(node.ty, name, nd, storage, node.ctype)
        if node.kind == "ref":
            r = RefN(node.ty, name, nd, storage)
            if node.target is not None:
                r.set_target(node.target)
            return r
        if node.kind == "unit":
            return UnitN(node.ty, name, nd, storage)
        if node.kind == "struct":
            s = StructN(node.ty, name, nd, storage, node.tag)
            s.extra = dict(node.extra)
            for f, n in zip(node.fields, node.names):
                s.fields.append(self._clone(f, f"{name}_{cident(n)}", dims, storage, strip))
                s.names.append(n)
            return s
        if node.kind == "enum":
            e = EnumN(node.ty, name, nd, storage)
            e.discr = self._clone(node.discr, name + "_d", dims, storage, strip)
            e.discr_values = node.discr_values
            for vn, vs in node.variants:
                e.variants.append((vn, self._clone(vs, f"{name}_{vn}", dims, storage, strip)))
            return e
        if node.kind == "arr":
            a = ArrN(node.ty, name, nd, storage, node.cap)
            if node.len is not None:
                a.len = self._clone(node.len, name + "_len", dims, storage, strip)
            a.elem = self._clone(node.elem, name + "_e", dims, storage, strip)
            return a
        raise TranslateError("clone: " + node.kind)

    def alloc_like(self, v, name: str, storage: Storage) -> SNode:
        name = cident(name)
        if isinstance(v, VLoc):
            return self.clone(v.loc.node, name, [], storage)
        if isinstance(v, VRef):
            r = RefN(None, name, [], storage)
            r.set_target(v.target)
            return r
        if isinstance(v, VScalar):
            return ScalarN(None, name, [], storage, v.ctype)
        if isinstance(v, VUnit):
            return UnitN(None, name, [], storage)
        if isinstance(v, VPyClosure):
            return PyClosureN(name, storage, v)
        if isinstance(v, VAgg) and v.variant is None:
            s = StructN(v.ty, name, [], storage)
            for i, f in enumerate(v.fields):
                nm = v.names[i] if v.names else str(i)
                s.fields.append(self.alloc_like(f, f"{name}_{nm}", storage))
                s.names.append(nm)
            return s
        raise TranslateError(f"cannot infer a layout for {name} from {v}")

    # -- emission --------------------------------------------------------------------------------
    def emit(self, s: str):
        self.cur.emit(s)

    def tmp(self, ctype="usize", hint="t") -> str:
        self.tmpn += 1
        nm = f"{hint}{self.tmpn}"
        self.cur.storage.declare(ctype, nm, [])
        return nm

    def lv(self, loc: Loc) -> str:
        n = loc.node
        if n.kind != "scalar":
            raise TranslateError(f"scalar access to non-scalar node {n.name} ({n.kind})")
        if len(loc.idxs) != n.ndims:
            raise TranslateError(f"index arity mismatch for {n.name}: {loc.idxs} vs dims {n.dims}")
        if getattr(n, "const", None) is not None:
            return n.const
        return n.name + sub(loc.idxs)

    def is_shared(self, node: SNode) -> bool:
        return node.storage.is_global

    # -- structural copy -------------------------------------------------------------------------
    def store(self, dst: Loc, v):
        n = dst.node
        if isinstance(v, VConst):
            v = self.const_value(v.text, n)
        if n.kind == "unit":
            return
        if isinstance(v, VLoc):
            return self.copy(dst, v.loc)
        if n.kind == "scalar":
            if isinstance(v, VScalar):
                self.emit(f"{self.lv(dst)} = {v.expr};")
                return
            raise TranslateError(f"store non-scalar {v} into scalar {n.name}")
        if n.kind == "ref":
            if isinstance(v, VRef):
                n.set_target(v.target, who=f"(store into {n.name})")
                assert len(v.idxs) == v.target.ndims, (v.target.name, v.idxs, v.target.dims)
                for k, ix in enumerate(v.idxs):
                    self.emit(f"{n.idxnames[k]}{sub(dst.idxs)} = {ix};")
                if v.off is not None:
                    self.emit(f"{n.need_off()}{sub(dst.idxs)} = {v.off};")
                elif n.offname is not None:
                    self.emit(f"{n.offname}{sub(dst.idxs)} = 0;")
                return
            if isinstance(v, VUnit):
                return
            raise TranslateError(f"store non-ref {v} into ref {n.name}")
        if n.kind == "struct":
            if isinstance(v, VAgg) and v.variant is None:
                if len(v.fields) != len(n.fields):
                    raise TranslateError(f"aggregate arity mismatch for {n.name}: {len(v.fields)} vs {len(n.fields)}")
                for f, fv in zip(n.fields, v.fields):
                    self.store(Loc(f, dst.idxs), fv)
                return
            if isinstance(v, VUnit) and not n.fields:
                return
            raise TranslateError(f"store {type(v).__name__} into struct {n.name}")
        if n.kind == "enum":
            if isinstance(v, VAgg) and v.variant is not None:
                vi = n.vindex(v.variant)
                self.emit(f"{self.lv(Loc(n.discr, dst.idxs))} = {vi};")
                vs = n.variants[vi][1]
                if len(v.fields) != len(vs.fields):
                    raise TranslateError(f"variant arity mismatch {n.name}::{v.variant}")
                for f, fv in zip(vs.fields, v.fields):
                    self.store(Loc(f, dst.idxs), fv)
                return
            raise TranslateError(f"store {v} into enum {n.name}")
        raise TranslateError(f"store into {n.kind} {n.name} from {type(v).__name__}")

    def copy(self, dst: Loc, src: Loc):
        d, s = dst.node, src.node
        if d is s and dst.idxs == src.idxs:
            return
        if d.kind == "unit" or s.kind == "unit":
            return
        if d.kind != s.kind:
            raise TranslateError(f"layout mismatch copying {s.name}({s.kind}) -> {d.name}({d.kind})")
        if d.kind == "scalar":
            self.emit(f"{self.lv(dst)} = {self.lv(src)};")
        elif d.kind == "ref":
            if s.target is None:
                return   # never-initialised reference (dead variant payload)
            d.set_target(s.target, who=f"(copy {s.name} -> {d.name})")
            for k in range(s.target.ndims):
                self.emit(f"{d.idxnames[k]}{sub(dst.idxs)} = {s.idxnames[k]}{sub(src.idxs)};")
            if s.offname is not None:
                self.emit(f"{d.need_off()}{sub(dst.idxs)} = {s.offname}{sub(src.idxs)};")
            elif d.offname is not None:
                self.emit(f"{d.offname}{sub(dst.idxs)} = 0;")
        elif d.kind == "struct":
            if len(d.fields) != len(s.fields):
                raise TranslateError(f"struct layout mismatch {s.name} -> {d.name}")
            if s.extra.get("pyval") is not None:
                d.extra["pyval"] = s.extra["pyval"]      # closure remembered by an iterator adaptor (static shape)
            for a, b in zip(d.fields, s.fields):
                self.copy(Loc(a, dst.idxs), Loc(b, src.idxs))
        elif d.kind == "enum":
            if len(d.variants) != len(s.variants):
                raise TranslateError(f"enum layout mismatch {s.name} -> {d.name}")
            self.copy(Loc(d.discr, dst.idxs), Loc(s.discr, src.idxs))
            for (_a, va), (_b, vb) in zip(d.variants, s.variants):
                self.copy(Loc(va, dst.idxs), Loc(vb, src.idxs))
        elif d.kind == "arr":
            if d.cap != s.cap:
                raise TranslateError(f"array capacity mismatch {s.name}[{s.cap}] -> {d.name}[{d.cap}]")
            if d.len is not None and s.len is not None:
                self.copy(Loc(d.len, dst.idxs), Loc(s.len, src.idxs))
            for k in range(d.cap):
                self.copy(Loc(d.elem, dst.idxs + [str(k)]), Loc(s.elem, src.idxs + [str(k)]))
        else:
            raise TranslateError("copy " + d.kind)

    # -- constants -------------------------------------------------------------------------------
    _INT_RE = re.compile(r"^(-?\d+)_(usize|isize|u8|u16|u32|u64|u128|i8|i16|i32|i64|i128)$")

    def const_scalar(self, text: str) -> Optional[VScalar]:
        t = text.strip()
        m = self._INT_RE.match(t)
        if m:
            ty = m.group(2)
            suffix = "UL" if ty in ("usize", "u64") else ("L" if ty in ("isize", "i64") else "")
            val = m.group(1)
            if ty in ("u128", "i128"):
                return VScalar(f"(({CTYPES[ty]}){val}ULL)" if len(val) < 19 else self._wide_const(val, CTYPES[ty]), CTYPES[ty])
            return VScalar(f"(({CTYPES[ty]}){val}{suffix})", CTYPES[ty])
        if t == "true":
            return VScalar("1", "_Bool")
        if t == "false":
            return VScalar("0", "_Bool")
        mm = re.match(r"^core::num::<impl (usize|u64|u32|u8|u16|u128)>::(MAX|MIN)$", t)
        if mm:
            t = f"{mm.group(1)}::{mm.group(2)}"
        m = re.match(r"^(usize|u64|u32|u8|u16|u128|isize|i64)::(MAX|MIN)$", t)
        if m:
            ty, w = m.group(1), m.group(2)
            ct = CTYPES[ty]
            if ty.startswith("u"):
                return VScalar(f"(({ct})~({ct})0)" if w == "MAX" else f"(({ct})0)", ct)
        m = re.match(r"^'(.)'$", t)
        if m:
            return VScalar(str(ord(m.group(1))), "unsigned int")
        if t in self.consts:
            return VScalar(self.consts[t], "usize")
        return None

    def _wide_const(self, val: str, ct: str) -> str:
        v = int(val)
        hi, lo = v >> 64, v & ((1 << 64) - 1)
        return f"((({ct}){hi}ULL << 64) | ({ct}){lo}ULL)"

    def const_value(self, text: str, node: Optional[SNode]):
        sc = self.const_scalar(text)
        if sc is not None:
            return sc
        if node is not None and node.kind in ("unit",):
            return VUnit()
        if node is not None and node.kind == "struct" and not node.fields:
            return VUnit()
        if text.startswith("ZeroSized") or text.startswith('"') or text.startswith("{"):
            return VUnit()
        key = strip_generics(text)
        if key in self.consts:
            return VScalar(self.consts[key], "usize")
        # unit-like enum variant given as a named constant (e.g. `const SpecId::PRAGUE`)
        if node is not None and node.kind == "enum":
            try:
                return VAgg([], variant=text.split("::")[-1])
            except TranslateError:
                pass
        if node is not None and node.kind == "ref":
            return VUnit()
        raise TranslateError(f"unsupported constant {text!r}")

    # -- places / operands -----------------------------------------------------------------------
    def local_node(self, inst: FnInstance, i: int, like=None) -> SNode:
        if i in inst.locals:
            return inst.locals[i]
        ty = inst.local_ty(i)
        name = f"f{inst.uid}_{i}"
        node = None
        if like is not None and (ty.kind in ("closure", "opaque", "param", "fndef") or isinstance(like, VPyClosure)):
            node = self.alloc_like(like, name, self.cur.storage)
            if node.ty is None:
                node.ty = ty
        else:
            try:
                node = self.alloc(ty, name, [], self.cur.storage, getattr(inst, "generics", None))
            except TranslateError:
                if like is None:
                    raise
                # roll back partially declared leaves is not needed: names are unique per attempt
                node = self.alloc_like(like, name + "x", self.cur.storage)
        inst.locals[i] = node
        return node

    def eval_place(self, inst: FnInstance, pl: Place, like=None) -> Loc:
        node = self.local_node(inst, pl.local, like if not pl.proj else None)
        loc = Loc(node, [])
        for p in pl.proj:
            loc = self.project(inst, loc, p)
        return loc

    def project(self, inst: FnInstance, loc: Loc, p: Tuple) -> Loc:
        n = loc.node
        k = p[0]
        if k == "deref":
            if n.kind == "ref":
                if n.target is None:
                    raise TranslateError(f"dereference of reference {n.name} with unknown target")
                if n.offname is not None:
                    raise TranslateError(f"dereference of the sub-slice reference {n.name} (offset views are only modelled for iteration)")
                return Loc(n.target, [f"{nm}{sub(loc.idxs)}" for nm in n.idxnames])
            if n.kind == "struct" and n.tag in ("Box", "Arc"):
                return Loc(n.fields[0], loc.idxs)
            raise TranslateError(f"deref of {n.kind} {n.name}")
        if k == "field":
            if n.kind == "struct":
                if p[1] >= len(n.fields):
                    raise TranslateError(f"field {p[1]} out of range for {n.name} ({n.ty})")
                return Loc(n.fields[p[1]], loc.idxs)
            if n.kind == "unit":
                return loc          # a field of an abstracted (opaque) value is opaque; reading a scalar out of it is refused later
            raise TranslateError(f"field projection on {n.kind} {n.name}")
        if k == "downcast":
            if n.kind != "enum":
                raise TranslateError(f"downcast on {n.kind} {n.name}")
            vi = n.vindex(p[1]) if not p[1].isdigit() else int(p[1])
            return Loc(n.variants[vi][1], loc.idxs)
        if k == "index":
            if n.kind != "arr":
                raise TranslateError(f"index projection on {n.kind} {n.name}")
            ix = self.lv(Loc(self.local_node(inst, p[1]), []))
            self.emit(f'__CPROVER_assert({ix} < {n.cap}, "index within capacity");')
            return Loc(n.elem, loc.idxs + [ix])
        if k == "constindex":
            if n.kind != "arr":
                raise TranslateError(f"constindex on {n.kind}")
            return Loc(n.elem, loc.idxs + [str(p[1])])
        raise TranslateError(f"projection {p}")

    def eval_operand(self, inst: FnInstance, op: Operand, want: Optional[SNode] = None):
        if op.kind == "const":
            mp = re.search(r"::promoted\[(\d+)\]\s*$", op.const)
            if mp:
                pf = self.fns.get(f"{inst.fn.name}::promoted[{mp.group(1)}]")
                if pf is None:
                    raise TranslateError(f"promoted constant body not found: {op.const}")
                self.tmpn += 1
                node = self.alloc(self.parse_ty(pf.ret_ty), f"prom{self.tmpn}", [], self.cur.storage)
                saved = inst.curbb
                self.inline(pf, [], Loc(node, []))
                inst.curbb = saved
                return VLoc(Loc(node, []))
            sc = self.const_scalar(op.const)
            if sc is not None:
                return sc
            if want is not None:
                return self.const_value(op.const, want)
            return VConst(op.const)
        return VLoc(self.eval_place(inst, op.place))

    def scalar(self, inst, op: Operand) -> VScalar:
        v = self.eval_operand(inst, op)
        return self.as_scalar(v)

    def as_scalar(self, v) -> VScalar:
        if isinstance(v, VScalar):
            return v
        if isinstance(v, VLoc) and v.loc.node.kind == "scalar":
            return VScalar(self.lv(v.loc), v.loc.node.ctype)
        if isinstance(v, VLoc) and v.loc.node.kind == "struct" and len(v.loc.node.fields) == 1:
            return self.as_scalar(VLoc(Loc(v.loc.node.fields[0], v.loc.idxs)))
        if isinstance(v, VConst):
            sc = self.const_scalar(v.text)
            if sc:
                return sc
        raise TranslateError(f"expected a scalar value, got {v}")

    def as_ref(self, v) -> VRef:
        """value of reference type -> (target, idx exprs)"""
        if isinstance(v, VRef):
            return v
        if isinstance(v, VLoc) and v.loc.node.kind == "ref":
            n = v.loc.node
            if n.target is None:
                raise TranslateError(f"reference {n.name} has no known target")
            return VRef(n.target, [f"{nm}{sub(v.loc.idxs)}" for nm in n.idxnames],
                        off=(f"{n.offname}{sub(v.loc.idxs)}" if n.offname is not None else None))
        raise TranslateError(f"expected a reference value, got {v}")

    def deref(self, v, allow_off=False) -> Loc:
        r = self.as_ref(v)
        if r.off is not None and not allow_off:
            raise TranslateError(f"use of the sub-slice reference into {r.target.name} outside the modelled slice operations")
        return Loc(r.target, list(r.idxs))

    # -- rvalues ---------------------------------------------------------------------------------
    CMP = {"Eq": "==", "Ne": "!=", "Lt": "<", "Le": "<=", "Gt": ">", "Ge": ">="}
    ARITH = {"Add": "+", "Sub": "-", "Mul": "*", "Div": "/", "Rem": "%", "BitAnd": "&", "BitOr": "|", "BitXor": "^",
             "Shl": "<<", "Shr": ">>", "AddUnchecked": "+", "SubUnchecked": "-", "MulUnchecked": "*"}

    def assign(self, inst: FnInstance, pl: Place, rv: Rvalue):
        k = rv.kind
        if k == "use":
            op = rv.ops[0]
            if op.kind == "const":
                dst = self.eval_place(inst, pl)
                if re.search(r"::promoted\[(\d+)\]\s*$", op.const):
                    self.store(dst, self.eval_operand(inst, op))
                    return
                self.store(dst, self.const_value(op.const, dst.node))
                return
            src = self.eval_place(inst, op.place)
            dst = self.eval_place(inst, pl, like=VLoc(src))
            self.copy(dst, src)
            return
        if k in ("ref", "refmut", "rawptr"):
            src = self.eval_place(inst, rv.place)
            v = VRef(src.node, list(src.idxs))
            dst = self.eval_place(inst, pl, like=v)
            self.store(dst, v)
            return
        if k == "copy_for_deref":
            src = self.eval_place(inst, rv.place)
            dst = self.eval_place(inst, pl, like=VLoc(src))
            self.copy(dst, src)
            return
        if k == "binop":
            a = self.scalar(inst, rv.ops[0])
            b = self.scalar(inst, rv.ops[1])
            dst = self.eval_place(inst, pl)
            if rv.op in self.CMP:
                self.store(dst, VScalar(f"({a.expr} {self.CMP[rv.op]} {b.expr})", "_Bool"))
                return
            if rv.op in ("AddWithOverflow", "SubWithOverflow", "MulWithOverflow"):
                ct = a.ctype
                res = Loc(dst.node.fields[0], dst.idxs)
                of = Loc(dst.node.fields[1], dst.idxs)
                if rv.op == "AddWithOverflow":
                    self.emit(f"{self.lv(res)} = ({ct})({a.expr} + {b.expr});")
                    self.emit(f"{self.lv(of)} = ({self.lv(res)} < {a.expr});" if not ct.startswith(("long", "int", "isize", "signed", "short", "__int128"))
                              else f"{self.lv(of)} = __CPROVER_overflow_plus({a.expr}, {b.expr});")
                elif rv.op == "SubWithOverflow":
                    self.emit(f"{self.lv(res)} = ({ct})({a.expr} - {b.expr});")
                    self.emit(f"{self.lv(of)} = ({a.expr} < {b.expr});" if not ct.startswith(("long", "int", "isize", "signed", "short", "__int128"))
                              else f"{self.lv(of)} = __CPROVER_overflow_minus({a.expr}, {b.expr});")
                else:
                    self.emit(f"{self.lv(res)} = ({ct})({a.expr} * {b.expr});")
                    self.emit(f"{self.lv(of)} = __CPROVER_overflow_mult({a.expr}, {b.expr});")
                return
            if rv.op in self.ARITH:
                ct = dst.node.ctype
                if rv.op in ("Div", "Rem"):
                    self.emit(f'__CPROVER_assert({b.expr} != 0, "division by zero");')
                self.store(dst, VScalar(f"(({ct})({a.expr} {self.ARITH[rv.op]} {b.expr}))", ct))
                return
            raise TranslateError(f"binop {rv.op}")
        if k == "unop":
            a = self.scalar(inst, rv.ops[0])
            dst = self.eval_place(inst, pl)
            if rv.op == "Not":
                e = f"(!{a.expr})" if a.ctype == "_Bool" else f"(({a.ctype})~{a.expr})"
                self.store(dst, VScalar(e, a.ctype))
                return
            if rv.op == "Neg":
                self.store(dst, VScalar(f"(({a.ctype})-{a.expr})", a.ctype))
                return
            raise TranslateError(f"unop {rv.op}")
        if k == "discriminant":
            src = self.eval_place(inst, rv.place)
            dst = self.eval_place(inst, pl)
            self.store(dst, VScalar(self.discr_expr(src), dst.node.ctype))
            return
        if k == "cast":
            return self.cast(inst, pl, rv)
        if k == "aggregate":
            return self.aggregate(inst, pl, rv)
        if k == "repeat":
            dst = self.eval_place(inst, pl)
            if dst.node.kind != "arr":
                raise TranslateError("repeat into non-array")
            for i in range(dst.node.cap):
                self.store(Loc(dst.node.elem, dst.idxs + [str(i)]), self.eval_operand(inst, rv.ops[0], dst.node.elem))
            return
        raise TranslateError(f"rvalue kind {k}: {rv.raw}")

    def discr_expr(self, loc: Loc) -> str:
        n = loc.node
        if n.kind != "enum":
            raise TranslateError(f"discriminant of {n.kind} {n.name}")
        d = self.lv(Loc(n.discr, loc.idxs))
        if n.discr_values:
            e = "0"
            for i, v in reversed(list(enumerate(n.discr_values))):
                e = f"({d} == {i} ? {v} : {e})"
            return e
        return d

    def cast(self, inst, pl, rv):
        op = rv.ops[0]
        ck = rv.cast_kind
        if ck.startswith("IntToFloat") or ck.startswith("FloatToInt") or ck.startswith("FloatToFloat"):
            dst = self.eval_place(inst, pl)
            if dst.node.kind == "unit":
                return
            a = self.scalar(inst, op)
            self.store(dst, VScalar(f"(({dst.node.ctype}){a.expr})", dst.node.ctype))
            return
        if ck.startswith("IntToInt"):
            a = self.scalar(inst, op)
            dst = self.eval_place(inst, pl)
            self.store(dst, VScalar(f"(({dst.node.ctype}){a.expr})", dst.node.ctype))
            return
        if ck.startswith("PointerCoercion") or ck.startswith("PtrToPtr") or ck.startswith("Transmute"):
            v = self.eval_operand(inst, op)
            if isinstance(v, VConst):
                dst = self.eval_place(inst, pl, like=VUnit())
                return
            dst = self.eval_place(inst, pl, like=v)
            self.store(dst, v)
            return
        raise TranslateError(f"cast kind {ck}: {rv.raw}")

    def aggregate(self, inst, pl, rv):
        ak = rv.agg_kind
        if ak in ("tuple", "closure"):
            vals = [self.eval_operand(inst, o) for o in rv.ops]
            v = VAgg(vals, names=rv.field_names)
            dst = self.eval_place(inst, pl, like=v)
            if dst.node.kind == "unit":
                return
            vals = [self.eval_operand(inst, o, f) for o, f in zip(rv.ops, dst.node.fields)]
            self.store(dst, VAgg(vals, names=rv.field_names))
            return
        if ak == "array":
            dst = self.eval_place(inst, pl)
            for i, o in enumerate(rv.ops):
                self.store(Loc(dst.node.elem, dst.idxs + [str(i)]), self.eval_operand(inst, o, dst.node.elem))
            if dst.node.len is not None:
                self.emit(f"{self.lv(Loc(dst.node.len, dst.idxs))} = {len(rv.ops)};")
            return
        # ADT
        dst = self.eval_place(inst, pl)
        n = dst.node
        if n.kind == "enum":
            vname = strip_generics(rv.name).split("::")[-1]
            vi = n.vindex(vname)
            vs = n.variants[vi][1]
            vals = [self.eval_operand(inst, o, f) for o, f in zip(rv.ops, vs.fields)]
            if len(vals) != len(vs.fields):
                raise TranslateError(f"variant arity {rv.raw}")
            self.store(dst, VAgg(vals, variant=vi))
            return
        if n.kind == "struct":
            if n.tag and n.extra.get("agg"):
                return n.extra["agg"](self, inst, dst, rv)
            if len(rv.ops) != len(n.fields):
                raise TranslateError(f"struct aggregate arity {rv.raw} vs {n.name} ({len(n.fields)} fields)")
            vals = [self.eval_operand(inst, o, f) for o, f in zip(rv.ops, n.fields)]
            self.store(dst, VAgg(vals))
            return
        if n.kind == "unit":
            return
        if n.kind == "scalar" and not rv.ops:
            # a field-less enum modelled as its discriminant byte: the check supplies the variant -> discriminant table
            vname = strip_generics(rv.name).split("::")[-1]
            ec = self.cfg.get("enum_consts", {})
            if vname in ec:
                self.emit(f"{self.lv(dst)} = {ec[vname]};")
                return
        raise TranslateError(f"aggregate into {n.kind}: {rv.raw}")

    # -- control flow ----------------------------------------------------------------------------
    def rpo(self, fn: Function) -> List[int]:
        seen, order = set(), []

        def succs(b):
            t = fn.blocks[b].term
            if t.kind == "goto":
                return [t.targets["return"]]
            if t.kind == "switch":
                return [x[1] for x in t.targets["cases"]]
            if t.kind in ("call", "drop"):
                return [t.targets["return"]] if "return" in t.targets else []
            if t.kind == "assert":
                return [t.targets["success"]]
            return []
        stack = [(0, iter(succs(0)))]
        seen.add(0)
        while stack:
            b, it = stack[-1]
            adv = False
            for s in it:
                if s not in seen and s in fn.blocks:
                    seen.add(s)
                    stack.append((s, iter(succs(s))))
                    adv = True
                    break
            if not adv:
                order.append(b)
                stack.pop()
        order.reverse()
        self._succs = succs
        return order

    def bind_generics(self, fn: Function, gargs) -> Dict[str, Ty]:
        """type parameters of a generic fn -> the call site's explicit generic arguments (declared order from the source)"""
        if not gargs:
            return {}
        m = self._IMPL_RE.search(fn.name)
        names = []
        fname = fn.name.split("::")[-1]
        if m:
            file = m.group(1)
            rel = file[4:] if file.startswith("src/") else file
            try:
                names = self.src.fn_generics(rel, int(m.group(2)), fname)
            except Exception:
                names = []
        last = [a.strip() for a in split_top_args(gargs[-1])] if gargs else []
        last = [a for a in last if a and not a.startswith("'")]
        out = {}
        if names and len(names) == len(last):
            for n_, a_ in zip(names, last):
                try:
                    out[n_] = self.parse_ty(a_)
                except Exception:
                    pass
        return out

    def inline(self, fn: Function, args: List[Any], dest: Optional[Loc], gargs=None):
        """Translate fn's body in place with the given argument values; result copied to dest."""
        key = self._def_key(fn.name) or fn.name
        if key in self.stack:
            raise TranslateError(f"recursive call to {key}")
        self.stack.append(key)
        self.encoded[fn.name] = hashlib.sha256(fn.text.encode()).hexdigest()[:16]
        self.uid += 1
        inst = FnInstance(self, fn, self.uid, self.cur)
        inst.generics = self.bind_generics(fn, gargs)
        self.emit(f"/* >>> {key} (inst {inst.uid}) */")
        if dest is not None and not dest.idxs and dest.node.ndims == 0 and re.fullmatch(r".*\b[A-Z]\b.*", fn.ret_ty or "") and \
                re.search(r"(^|[<, (&])[A-Z]($|[>, )])", fn.ret_ty or ""):
            # generic return type (e.g. Result<T, E> with T a type parameter): the return place IS the caller's destination
            inst.locals[0] = dest.node
        if len(args) != fn.nargs:
            # closures called through Fn* traits receive their arguments as one tuple
            raise TranslateError(f"arity mismatch calling {key}: {len(args)} args for {fn.nargs} params")
        for i, a in enumerate(args):
            if isinstance(a, VConst):
                node = self.local_node(inst, i + 1, like=VUnit())
                if node.kind != "unit":
                    self.store(Loc(node, []), self.const_value(a.text, node))
                continue
            node = self.local_node(inst, i + 1, like=a)
            self.store(Loc(node, []), a)
        order = self.rpo(fn)
        pos = {b: i for i, b in enumerate(order)}
        # loop heads = targets of retreating edges
        heads = set()
        for b in order:
            for s in self._succs(b):
                if s in pos and pos[s] <= pos[b]:
                    heads.add(s)
        counters = {}
        lb = self.cfg.get("loops", {}).get(key)
        for h in sorted(heads):
            spec = None
            if isinstance(lb, dict):
                spec = lb.get(h, lb.get("*"))
            elif lb is not None:
                spec = lb
            if spec is None:
                continue
            if not isinstance(spec, tuple):
                spec = (spec, "assert")
            self.ncounters += 1
            c = f"lc{self.ncounters}"
            self.cur.storage.declare("unsigned char", c, [])
            counters[h] = (c, spec[0], spec[1])
        inst.counters = counters
        inst.pos = pos
        # one backward goto per loop head (CBMC counts unwindings per backward goto): all retreating edges of a head with
        # several of them go forward to a latch placed right after the last of their source blocks
        back_srcs = {}
        for b in order:
            for s_ in self._succs(b):
                if s_ in pos and pos[s_] <= pos[b]:
                    back_srcs.setdefault(s_, []).append(b)
        inst.latch = {}
        latch_after = {}
        preds = {}
        for b in order:
            for s_ in self._succs(b):
                if s_ in pos:
                    preds.setdefault(s_, []).append(b)
        for h, srcs in back_srcs.items():
            # natural loop of h: everything that reaches a back-edge source without passing through h.  The latch goes after the
            # LAST block of the loop in emission order, so that loops nest properly (an inner loop's back edge never spans an outer latch)
            body, work = {h}, list(srcs)
            while work:
                x = work.pop()
                if x in body:
                    continue
                body.add(x)
                work.extend(preds.get(x, []))
            last = max(body, key=lambda x: pos[x])
            if len(srcs) > 1 or pos[last] > max(pos[x] for x in srcs):
                inst.latch[h] = f"{inst.label(h)}_latch"
                latch_after.setdefault(last, []).append(h)
        if 0 in counters:
            self.emit(f"{counters[0][0]} = 0;")
        for b in order:
            blk = fn.blocks[b]
            inst.curbb = b
            self.cur.label(inst.label(b))
            if b in counters:
                c, K, mode = counters[b]
                if mode == "assume":
                    self.emit(f"if ({c} >= {K}) {{ __CPROVER_assume(0); }} {c}++;")
                else:
                    self.emit(f'if ({c} >= {K}) {{ __CPROVER_assert(0, "BOUND loop bound {K} in {key} bb{b}"); __CPROVER_assume(0); }} {c}++;')
            if blk.term.kind == "call" and any(r.search(blk.term.func) for r in self.dead_re):
                # environment assumption (listed in evidence): this call site is never reached (e.g. tracing events with logging off)
                self.models_used["dead:" + self.canon_key(strip_generics(self.normalize_callee(blk.term.func)))[:80]] = 1
                self.emit("__CPROVER_assume(0); /* dead call site by environment assumption */")
                for h in sorted(latch_after.get(b, []), key=lambda x: -pos[x]):
                    self.cur.label(inst.latch[h])
                    self.emit(f"goto {inst.label(h)};")
                continue
            for st in blk.stmts:
                if st.kind == "nop":
                    continue
                if st.kind == "setdiscr":
                    loc = self.eval_place(inst, st.place)
                    self.emit(f"{self.lv(Loc(loc.node.discr, loc.idxs))} = {loc.node.vindex(st.variant) if not st.variant.isdigit() else int(st.variant)};")
                    continue
                try:
                    self.assign(inst, st.place, st.rvalue)
                except TranslateError as e:
                    raise TranslateError(f"{e}\n    in {key} bb{b}: {st.raw}") from None
            try:
                self.terminator(inst, blk.term)
            except TranslateError as e:
                if "\n    in " in str(e):
                    raise
                raise TranslateError(f"{e}\n    in {key} bb{b}: {blk.term.raw}") from None
            for h in sorted(latch_after.get(b, []), key=lambda x: -pos[x]):
                self.cur.label(inst.latch[h])
                self.emit(f"goto {inst.label(h)};")
        self.cur.label(inst.ret_label)
        if dest is not None and 0 in inst.locals:
            self.copy(dest, Loc(inst.locals[0], []))
        self.emit(f"/* <<< {key} */")
        self.stack.pop()
        return inst

    def jump(self, inst: FnInstance, bb: int, cond: str = None):
        reset = ""
        cs = getattr(inst, "counters", {})
        if bb in cs and inst.pos.get(bb, 0) > inst.pos.get(inst.curbb, 0):
            reset = f"{cs[bb][0]} = 0; "
        target = inst.label(bb)
        if bb in getattr(inst, "latch", {}) and inst.pos.get(bb, 0) <= inst.pos.get(inst.curbb, 0):
            target = inst.latch[bb]
        if cond:
            self.emit(f"if ({cond}) {{ {reset}goto {target}; }}")
        else:
            self.emit(f"{reset}goto {target};")

    def terminator(self, inst: FnInstance, t: Term):
        k = t.kind
        if k == "goto":
            self.jump(inst, t.targets['return'])
        elif k == "return":
            self.emit(f"goto {inst.ret_label};")
        elif k == "unreachable":
            self.emit('__CPROVER_assert(0, "MIR unreachable reached"); __CPROVER_assume(0);')
        elif k in ("resume", "terminate"):
            self.emit("__CPROVER_assume(0);")
        elif k == "switch":
            v = self.scalar(inst, t.operand)
            other = None
            bits = {"signed char": 8, "short": 16, "int": 32, "long": 64, "isize": 64}.get(v.ctype)
            for val, bb in t.targets["cases"]:
                if val == "otherwise":
                    other = bb
                else:
                    if bits and re.fullmatch(r"\d+", str(val)) and int(val) >= (1 << (bits - 1)):
                        val = str(int(val) - (1 << bits))      # MIR prints switch targets of signed discriminants as unsigned bit patterns
                    self.jump(inst, bb, f"{v.expr} == {val}")
            if other is not None:
                self.jump(inst, other)
            else:
                self.emit('__CPROVER_assume(0);')
        elif k == "assert":
            v = self.scalar(inst, t.operand)
            cond = f"!{v.expr}" if t.negate else v.expr
            msg = re.sub(r'[^A-Za-z0-9 _+*/<>=-]', "", t.msg)[:60]
            self.emit(f'__CPROVER_assert({cond}, "RUST-PANIC arithmetic: {msg}"); __CPROVER_assume({cond});')
            self.jump(inst, t.targets['success'])
        elif k == "drop":
            loc = self.eval_place(inst, t.place)
            self.drop(loc)
            self.jump(inst, t.targets['return'])
        elif k == "call":
            self.call(inst, t)
            if "return" in t.targets:
                self.jump(inst, t.targets['return'])
            else:
                self.emit("__CPROVER_assume(0);")
        else:
            raise TranslateError(f"terminator {k}")

    def drop(self, loc: Loc):
        n = loc.node
        if n.kind == "struct":
            if n.tag and n.extra.get("drop"):
                n.extra["drop"](self, loc)
                return
            for f in n.fields:
                self.drop(Loc(f, loc.idxs))
        elif n.kind == "enum":
            if not any(self.has_drop(vs) for _v, vs in n.variants):
                return
            d = self.lv(Loc(n.discr, loc.idxs))
            for i, (_vn, vs) in enumerate(n.variants):
                if self.has_drop(vs):
                    self.emit(f"if ({d} == {i}) {{")
                    self.drop(Loc(vs, loc.idxs))
                    self.emit("}")
        elif n.kind == "arr":
            if self.has_drop(n.elem):
                for k in range(n.cap):
                    self.drop(Loc(n.elem, loc.idxs + [str(k)]))

    def has_drop(self, n: SNode) -> bool:
        if n.kind == "struct":
            return bool(n.tag and n.extra.get("drop")) or any(self.has_drop(f) for f in n.fields)
        if n.kind == "enum":
            return any(self.has_drop(vs) for _v, vs in n.variants)
        if n.kind == "arr":
            return self.has_drop(n.elem)
        return False

    # -- calls -----------------------------------------------------------------------------------
    @staticmethod
    def canon_key(key: str) -> str:
        if key.startswith("<"):
            return key
        segs = key.split("::")
        for i in range(len(segs) - 2, -1, -1):
            if segs[i] and segs[i][0].isupper():
                return "::".join(segs[i:])
        return key

    @staticmethod
    def normalize_callee(func: str) -> str:
        """`scheduler::control::<impl Scheduler<DB>>::is_aborted` -> `Scheduler::<DB>::is_aborted`"""
        m = re.match(r"^((?:[a-z_][a-z0-9_]*::)+)<impl ", func)
        if not m:
            return func
        from rtypes import _match_angle
        i = m.end() - len("<impl ")
        j = _match_angle(func, i)
        inner = func[i + len("<impl "):j]
        if " as " in inner or " for " in inner:
            return func
        base = inner.split("<")[0].strip()
        return base + func[j + 1:]

    def call(self, inst: FnInstance, t: Term):
        func = self.normalize_callee(t.func)
        key = self.canon_key(strip_generics(func))
        for r in self.noop_re:
            if r.search(key):
                self.models_used["noop:" + key] = self.models_used.get("noop:" + key, 0) + 1
                return
        # indirect call through a local holding a closure / fn item
        m = re.fullmatch(r"(?:move |copy )?_(\d+)", func.strip())
        args = None
        if m:
            raise TranslateError(f"indirect call through local {func}")
        stub = self.cfg.get("stubs", {}).get(key)
        if stub is not None:
            args = [self.eval_operand(inst, a) for a in t.args]
            self.models_used["stub:" + key] = self.models_used.get("stub:" + key, 0) + 1
            stub(self, CallCtx(self, inst, t, key, args))
            return
        model = self.models.lookup(key)
        if model is not None:
            args = [self.eval_operand(inst, a) for a in t.args]
            dest = None
            if t.place is not None:
                dty = inst.local_ty(t.place.local) if not t.place.proj else None
                dest = (inst, t.place)
            self.models_used[key] = self.models_used.get(key, 0) + 1
            model(self, CallCtx(self, inst, t, key, args))
            return
        fn = self.find_fn(func)
        if fn is None and key != strip_generics(func):
            fn = self.find_fn(key)
        if fn is not None:
            args = [self.eval_operand(inst, a) for a in t.args]
            dest = self.eval_place(inst, t.place) if t.place is not None and self._ret_needed(fn) else None
            self.inline(fn, args, dest, gargs=generic_args(t.func))
            return
        # trait method on a generic / impl-Trait receiver: dispatch on the actual receiver layout
        m = re.fullmatch(r"<(.+) as ([A-Za-z_0-9:]+)>::(.+)", key)
        if m and t.args and not getattr(t, "_redispatched", False):
            args = [self.eval_operand(inst, a) for a in t.args]
            try:
                loc = self.deref(args[0]) if not (isinstance(args[0], VLoc) and args[0].loc.node.kind != "ref") else args[0].loc
                while loc.node.kind == "ref":
                    loc = self.deref(VLoc(loc))
                tyn = loc.node.ty.name if loc.node.ty is not None and loc.node.ty.kind == "path" else None
            except TranslateError:
                tyn = None
            if tyn and tyn != m.group(1):
                key2 = f"<{tyn} as {m.group(2)}>::{m.group(3)}"
                model = self.models.lookup(key2)
                if model is not None:
                    self.models_used[key2] = self.models_used.get(key2, 0) + 1
                    model(self, CallCtx(self, inst, t, key2, args))
                    return
                fn = self.callmap.get(key2)
                if fn is not None:
                    dest = self.eval_place(inst, t.place) if t.place is not None and self._ret_needed(fn) else None
                    self.inline(fn, args, dest)
                    return
                raise TranslateError(f"no model and no MIR body for callee `{func}` (dispatched key `{key2}`)")
        raise TranslateError(f"no model and no MIR body for callee `{func}` (key `{key}`)")

    def _pyclosure_of(self, v):
        try:
            if isinstance(v, VLoc):
                loc = v.loc
            elif isinstance(v, VRef):
                loc = Loc(v.target, v.idxs)
            else:
                return None
            while loc.node.kind == "ref":
                if loc.node.target is None:
                    return None
                loc = self.deref(VLoc(loc))
            return getattr(loc.node, "pyc", None)
        except TranslateError:
            return None

    def _ret_needed(self, fn: Function) -> bool:
        rt = fn.ret_ty.strip()
        return rt not in ("()", "!")

    def call_closure(self, inst: FnInstance, closure_val, args: List[Any], dest: Optional[Loc], by_ref=True):
        """call a closure value (VLoc of closure struct or reference to it) with explicit args"""
        if isinstance(closure_val, VPyClosure):
            return closure_val.fn(self, args, dest)
        pc = self._pyclosure_of(closure_val)
        if pc is not None:
            return pc.fn(self, args, dest)
        if isinstance(closure_val, VConst):
            m = re.search(r"\{closure@[^}]*\}", closure_val.text)
            if m:
                fn = self.closures.get(m.group(0))
                if fn is None:
                    raise TranslateError(f"closure body not found: {m.group(0)}")
                # zero-sized closure: first param is the (unit) environment
                return self.inline(fn, [VUnit()] + args, dest)
            mctor = re.search(r"::(Err|Ok|Some)\s*$", closure_val.text.strip().rstrip("}").strip())
            if mctor and dest is not None and dest.node.kind == "enum":
                # enum tuple-variant constructor used as a function value (e.g. `.map_or(Ok(x), Err)`)
                return self.store(dest, VAgg(list(args), variant=mctor.group(1)))
            f = self.find_fn(closure_val.text)
            if f is None and re.search(r" as From<.*>>::from\s*$", closure_val.text.strip().rstrip("}").strip()) and len(args) == 1:
                # `From::from` of an abstracted error type used as a function value (e.g. `.map_err(ERROR::from)`): identity on the model value
                if dest is not None:
                    try:
                        self.store(dest, args[0])
                    except TranslateError:
                        pass
                return None
            if f is None:
                key_ = self.canon_key(strip_generics(self.normalize_callee(closure_val.text.strip())))
                mdl = self.models.lookup(key_)
                if mdl is not None:
                    # a modelled library function used as a function value (e.g. `.map(AccountInfo::has_no_code_and_nonce)`)
                    import itermodels
                    self.models_used[key_] = self.models_used.get(key_, 0) + 1
                    return mdl(self, itermodels.ICtx(self, inst, key_, list(args), dest))
                raise TranslateError(f"fn item not found: {closure_val.text}")
            return self.inline(f, args, dest)
        loc = None
        if isinstance(closure_val, VLoc) and closure_val.loc.node.kind == "ref":
            loc = self.deref(closure_val)
        elif isinstance(closure_val, VRef):
            loc = Loc(closure_val.target, closure_val.idxs)
        elif isinstance(closure_val, VLoc):
            loc = closure_val.loc
        if loc is None:
            raise TranslateError(f"cannot call {closure_val}")
        while loc.node.kind == "ref":
            loc = self.deref(VLoc(loc))
        ty = loc.node.ty
        if ty is None or ty.kind != "closure":
            raise TranslateError(f"call of non-closure {loc.node.name} ({ty})")
        fn = self.closures.get(re.search(r"\{closure@[^}]*\}", ty.name).group(0))
        if fn is None:
            raise TranslateError(f"closure body not found for {ty.name}")
        # closure fns take (&mut env | &env | env, args...)
        t1 = fn.locals[1].strip()
        env = VRef(loc.node, loc.idxs) if t1.startswith("&") else VLoc(loc)
        return self.inline(fn, [env] + args, dest)


class PyClosureN(UnitN):
    """storage node standing for a harness-defined closure value"""
    kind = "unit"

    def __init__(self, name, storage, pyc):
        super().__init__(Ty("closure", name="{pyclosure}"), name, [], storage)
        self.pyc = pyc


class CallCtx:
    def __init__(self, tr: Translator, inst: FnInstance, term: Term, key: str, args: List[Any]):
        self.tr = tr
        self.inst = inst
        self.term = term
        self.key = key
        self.args = args
        self.func = term.func

    def dest(self, like=None) -> Optional[Loc]:
        if self.term.place is None:
            return None
        return self.tr.eval_place(self.inst, self.term.place, like=like)

    def dest_ty(self) -> Optional[Ty]:
        p = self.term.place
        if p is None or p.proj:
            return None
        return self.inst.local_ty(p.local)

    def ret(self, v):
        d = self.dest(like=v)
        if d is None or d.node.kind == "unit":
            return
        self.tr.store(d, v)

    def gargs(self) -> List[str]:
        return generic_args(self.func)
