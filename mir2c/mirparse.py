"""Parser for rustc's pretty-printed MIR (-Zunpretty=mir).

Produces Function objects: locals with (normalised) type strings, basic blocks with statements and a
terminator.  Only syntax is handled here; nothing is interpreted.
"""
import re
from dataclasses import dataclass, field
from typing import List, Optional, Dict, Tuple, Any

OPEN = "([{<"
CLOSE = ")]}>"
MATCH = {")": "(", "]": "[", "}": "{", ">": "<"}


class ParseError(Exception):
    pass


def split_top(s: str, sep: str = ",") -> List[str]:
    """Split s at top-level occurrences of sep (not inside brackets or string literals)."""
    out, depth, cur, i, n = [], 0, [], 0, len(s)
    while i < n:
        c = s[i]
        if c == '"':
            j = i + 1
            while j < n and s[j] != '"':
                if s[j] == "\\":
                    j += 1
                j += 1
            cur.append(s[i:j + 1])
            i = j + 1
            continue
        if c == "'" and i + 2 < n and (s[i + 2] == "'" or (s[i + 1] == "\\" and i + 3 < n and s[i + 3] == "'")):
            # char literal
            j = i + (3 if s[i + 1] == "\\" else 2)
            cur.append(s[i:j + 1])
            i = j + 1
            continue
        if c in "([{":
            depth += 1
        elif c in ")]}":
            depth -= 1
        elif c == "<":
            # generic bracket unless it is a comparison (MIR has no infix comparisons) or shift
            depth += 1
        elif c == ">":
            if i > 0 and s[i - 1] in "-=":  # '->' or '=>'
                pass
            else:
                depth -= 1
        if depth == 0 and s.startswith(sep, i):
            out.append("".join(cur).strip())
            cur = []
            i += len(sep)
            continue
        cur.append(c)
        i += 1
    last = "".join(cur).strip()
    if last or out:
        out.append(last)
    return out


def find_top(s: str, needle: str, start: int = 0) -> int:
    """Index of first top-level occurrence of needle in s at or after start, else -1."""
    depth, i, n = 0, 0, len(s)
    while i < n:
        c = s[i]
        if c == '"':
            j = i + 1
            while j < n and s[j] != '"':
                if s[j] == "\\":
                    j += 1
                j += 1
            i = j + 1
            continue
        if depth == 0 and i >= start and s.startswith(needle, i):
            return i
        if c in "([{":
            depth += 1
        elif c in ")]}":
            depth -= 1
        elif c == "<":
            depth += 1
        elif c == ">":
            if not (i > 0 and s[i - 1] in "-="):
                depth -= 1
        i += 1
    return -1


def match_paren(s: str, i: int) -> int:
    """s[i] is an opening bracket of ([{ ; return index of its match ('<' '>' are tracked too)."""
    assert s[i] in "([{", (s, i)
    depth, n = 0, len(s)
    j = i
    while j < n:
        c = s[j]
        if c == '"':
            k = j + 1
            while k < n and s[k] != '"':
                if s[k] == "\\":
                    k += 1
                k += 1
            j = k + 1
            continue
        if c in "([{":
            depth += 1
        elif c in ")]}":
            depth -= 1
            if depth == 0:
                return j
        j += 1
    raise ParseError("unbalanced: " + s)


# ---------------------------------------------------------------------------------------------
# Places / operands / rvalues
# ---------------------------------------------------------------------------------------------

@dataclass
class Place:
    local: int
    proj: List[Tuple] = field(default_factory=list)
    # proj elements: ('deref',), ('field', idx, type_str), ('downcast', variant_name),
    #                ('index', local), ('constindex', idx, minlen, from_end), ('subslice', a, b, from_end)

    def __str__(self):
        s = f"_{self.local}"
        for p in self.proj:
            s += "." + "/".join(str(x) for x in p)
        return s


@dataclass
class Operand:
    kind: str  # 'copy' | 'move' | 'const'
    place: Optional[Place] = None
    const: Optional[str] = None  # raw constant text

    def __str__(self):
        return f"{self.kind} {self.place if self.place else self.const}"


@dataclass
class Rvalue:
    kind: str
    # 'use' (ops[0]); 'ref'/'refmut'/'rawptr' (place); 'binop' (op, ops[0], ops[1]); 'unop' (op, ops[0]);
    # 'discriminant' (place); 'aggregate' (agg_kind, name, ops, field_names); 'cast' (ops[0], ty, cast_kind);
    # 'repeat' (ops[0], count); 'len' (place); 'copy_for_deref' (place)
    op: Optional[str] = None
    ops: List[Operand] = field(default_factory=list)
    place: Optional[Place] = None
    name: Optional[str] = None  # aggregate: type/variant path text
    agg_kind: Optional[str] = None  # 'tuple' | 'adt' | 'closure' | 'array'
    field_names: Optional[List[str]] = None
    ty: Optional[str] = None
    cast_kind: Optional[str] = None
    raw: str = ""


_LOCAL_RE = re.compile(r"_(\d+)")


def parse_place(s: str) -> Place:
    s = s.strip()
    pl, rest = _parse_place_prefix(s)
    if rest.strip():
        raise ParseError(f"trailing text in place {s!r}: {rest!r}")
    return pl


def _parse_place_prefix(s: str) -> Tuple[Place, str]:
    """Parse a place at the start of s; returns (place, remaining text)."""
    s = s.lstrip()
    if s.startswith("("):
        end = match_paren(s, 0)
        inner = s[1:end].strip()
        rest = s[end + 1:]
        if inner.startswith("*"):
            base, r2 = _parse_place_prefix(inner[1:])
            if r2.strip():
                raise ParseError(f"bad deref place {s!r}")
            pl = Place(base.local, base.proj + [("deref",)])
        else:
            # (BASE.N: TYPE)  or (BASE as Variant)
            base, r2 = _parse_place_prefix(inner)
            r2 = r2.lstrip()
            if r2.startswith("as "):
                pl = Place(base.local, base.proj + [("downcast", r2[3:].strip())])
            elif r2.startswith("."):
                m = re.match(r"\.(\d+)\s*:\s*(.*)$", r2, re.S)
                if not m:
                    raise ParseError(f"bad field place {s!r}")
                pl = Place(base.local, base.proj + [("field", int(m.group(1)), m.group(2).strip())])
            else:
                raise ParseError(f"bad paren place {s!r} rest {r2!r}")
    else:
        m = _LOCAL_RE.match(s)
        if not m:
            raise ParseError(f"bad place {s!r}")
        pl = Place(int(m.group(1)))
        rest = s[m.end():]
    # postfix index projections
    while rest.startswith("["):
        end = match_paren(rest, 0)
        inner = rest[1:end].strip()
        rest = rest[end + 1:]
        m = _LOCAL_RE.fullmatch(inner)
        if m:
            pl = Place(pl.local, pl.proj + [("index", int(m.group(1)))])
            continue
        m = re.fullmatch(r"(-?)(\d+) of (\d+)", inner)
        if m:
            pl = Place(pl.local, pl.proj + [("constindex", int(m.group(2)), int(m.group(3)), m.group(1) == "-")])
            continue
        m = re.fullmatch(r"(\d+):(-?)(\d+)", inner)
        if m:
            pl = Place(pl.local, pl.proj + [("subslice", int(m.group(1)), int(m.group(3)), m.group(2) == "-")])
            continue
        m = re.fullmatch(r"(\d+):", inner)
        if m:
            pl = Place(pl.local, pl.proj + [("subslice", int(m.group(1)), 0, True)])
            continue
        raise ParseError(f"bad index projection [{inner}]")
    return pl, rest


def parse_operand(s: str) -> Operand:
    s = s.strip()
    if s.startswith("no_retag "):
        s = s[len("no_retag "):]
    if s.startswith("copy "):
        return Operand("copy", parse_place(s[5:]))
    if s.startswith("move "):
        return Operand("move", parse_place(s[5:]))
    if s.startswith("const "):
        return Operand("const", const=s[6:].strip())
    # bare function items / paths appear as operands without the 'const' keyword
    if re.match(r"^[A-Za-z_<{]", s):
        return Operand("const", const=s)
    raise ParseError(f"bad operand {s!r}")


BINOPS = {"Add", "Sub", "Mul", "Div", "Rem", "BitXor", "BitAnd", "BitOr", "Shl", "Shr", "Eq", "Lt", "Le", "Ne",
          "Ge", "Gt", "Cmp", "Offset", "AddWithOverflow", "SubWithOverflow", "MulWithOverflow", "AddUnchecked",
          "SubUnchecked", "MulUnchecked", "ShlUnchecked", "ShrUnchecked"}
UNOPS = {"Not", "Neg", "PtrMetadata"}


def parse_rvalue(s: str) -> Rvalue:
    s = s.strip()
    raw = s
    if s.startswith("no_retag "):
        s = s[len("no_retag "):]
    if s.startswith("&raw const ") or s.startswith("&raw mut "):
        k = len("&raw const ") if s.startswith("&raw const ") else len("&raw mut ")
        return Rvalue("rawptr", place=parse_place(s[k:]), raw=raw)
    if s.startswith("&mut "):
        return Rvalue("refmut", place=parse_place(s[5:]), raw=raw)
    if s.startswith("&fake "):
        return Rvalue("ref", place=parse_place(s[s.index(" ", 6) + 1:]), raw=raw)
    if s.startswith("&"):
        return Rvalue("ref", place=parse_place(s[1:]), raw=raw)
    if s.startswith("discriminant("):
        end = match_paren(s, len("discriminant"))
        return Rvalue("discriminant", place=parse_place(s[len("discriminant("):end]), raw=raw)
    if s.startswith("deref_copy "):
        return Rvalue("copy_for_deref", place=parse_place(s[len("deref_copy "):]), raw=raw)
    if s.startswith("Len("):
        end = match_paren(s, 3)
        return Rvalue("len", place=parse_place(s[4:end]), raw=raw)
    m = re.match(r"([A-Za-z]+)\(", s)
    if m and m.group(1) in BINOPS:
        end = match_paren(s, m.end() - 1)
        parts = split_top(s[m.end():end])
        if len(parts) != 2:
            raise ParseError(f"binop arity {s!r}")
        return Rvalue("binop", op=m.group(1), ops=[parse_operand(p) for p in parts], raw=raw)
    if m and m.group(1) in UNOPS:
        end = match_paren(s, m.end() - 1)
        return Rvalue("unop", op=m.group(1), ops=[parse_operand(s[m.end():end])], raw=raw)
    # cast:   OPERAND as TYPE (Kind)
    if s.startswith(("copy ", "move ", "const ")):
        k = find_top(s, " as ")
        if k >= 0 and s.endswith(")"):
            # locate the trailing "(Kind...)" group
            j = len(s) - 1
            depth = 0
            while j >= 0:
                if s[j] == ")":
                    depth += 1
                elif s[j] == "(":
                    depth -= 1
                    if depth == 0:
                        break
                j -= 1
            ty = s[k + 4:j].strip()
            kind = s[j + 1:-1]
            try:
                op = parse_operand(s[:k])
                return Rvalue("cast", ops=[op], ty=ty, cast_kind=kind, raw=raw)
            except ParseError:
                pass
        return Rvalue("use", ops=[parse_operand(s)], raw=raw)
    # tuple aggregate
    if s.startswith("("):
        end = match_paren(s, 0)
        if end == len(s) - 1:
            inner = s[1:end].strip()
            parts = split_top(inner) if inner else []
            parts = [p for p in parts if p != ""]
            return Rvalue("aggregate", agg_kind="tuple", ops=[parse_operand(p) for p in parts], raw=raw)
    # array aggregate / repeat
    if s.startswith("["):
        end = match_paren(s, 0)
        inner = s[1:end]
        k = find_top(inner, ";")
        if k >= 0:
            return Rvalue("repeat", ops=[parse_operand(inner[:k])], name=inner[k + 1:].strip(), raw=raw)
        parts = [p for p in split_top(inner) if p]
        return Rvalue("aggregate", agg_kind="array", ops=[parse_operand(p) for p in parts], raw=raw)
    # closure aggregate: {closure@...} { a: op, b: op }   or {closure@...}
    if s.startswith("{closure@") or s.startswith("{coroutine@") or s.startswith("{async"):
        end = match_paren(s, 0)
        name = s[:end + 1]
        rest = s[end + 1:].strip()
        ops, names = [], []
        if rest.startswith("{"):
            e2 = match_paren(rest, 0)
            for p in split_top(rest[1:e2]):
                if not p:
                    continue
                k = find_top(p, ":")
                names.append(p[:k].strip())
                ops.append(parse_operand(p[k + 1:]))
        return Rvalue("aggregate", agg_kind="closure", name=name, ops=ops, field_names=names, raw=raw)
    # ADT aggregate: Path { f: op, .. }  |  Path(op, ..)  |  Path
    k_brace = find_top(s, " {")
    if k_brace >= 0 and s.endswith("}"):
        name = s[:k_brace].strip()
        inner = s[k_brace + 2:-1]
        ops, names = [], []
        for p in split_top(inner):
            if not p:
                continue
            k = find_top(p, ":")
            names.append(p[:k].strip())
            ops.append(parse_operand(p[k + 1:]))
        return Rvalue("aggregate", agg_kind="adt", name=name, ops=ops, field_names=names, raw=raw)
    if s.endswith(")"):
        # find the '(' matching the final ')'
        j = len(s) - 1
        depth = 0
        while j >= 0:
            if s[j] == ")":
                depth += 1
            elif s[j] == "(":
                depth -= 1
                if depth == 0:
                    break
            j -= 1
        name = s[:j].strip()
        parts = [p for p in split_top(s[j + 1:-1]) if p]
        return Rvalue("aggregate", agg_kind="adt", name=name, ops=[parse_operand(p) for p in parts], raw=raw)
    if re.match(r"^[A-Za-z_<]", s):
        return Rvalue("aggregate", agg_kind="adt", name=s, ops=[], raw=raw)
    raise ParseError(f"bad rvalue {s!r}")


# ---------------------------------------------------------------------------------------------
# Statements / terminators / functions
# ---------------------------------------------------------------------------------------------

@dataclass
class Stmt:
    kind: str  # 'assign' | 'nop' | 'setdiscr' | 'other'
    place: Optional[Place] = None
    rvalue: Optional[Rvalue] = None
    raw: str = ""
    variant: Optional[str] = None


@dataclass
class Term:
    kind: str  # goto, switch, return, unreachable, resume, drop, call, assert, abort/terminate
    targets: Dict[str, Any] = field(default_factory=dict)  # 'return'/'success'/'unwind' -> bb ; switch: list
    operand: Optional[Operand] = None  # switch discr / assert cond
    place: Optional[Place] = None  # drop place / call destination
    func: Optional[str] = None  # call: callee text  (or an operand text for indirect calls)
    args: List[Operand] = field(default_factory=list)
    negate: bool = False  # assert(!cond)
    msg: str = ""
    raw: str = ""


@dataclass
class Block:
    idx: int
    cleanup: bool
    stmts: List[Stmt]
    term: Term


@dataclass
class Function:
    name: str            # text between 'fn ' and the parameter list
    nargs: int
    ret_ty: str
    locals: Dict[int, str]   # local index -> type string
    debug: Dict[str, str]    # debug name -> place text
    blocks: Dict[int, Block]
    text: str
    promoted: bool = False


_TARGETS_RE = re.compile(r"\s*->\s*(\[.*\]|bb\d+|unwind .*)\s*$", re.S)


def _parse_targets(txt: str) -> Dict[str, Any]:
    """txt like '[return: bb1, unwind: bb38]' / '[return: bb1, unwind continue]' / 'unwind continue'."""
    out: Dict[str, Any] = {}
    txt = txt.strip()
    if txt.startswith("["):
        for p in split_top(txt[1:-1]):
            p = p.strip()
            if p.startswith("unwind"):
                r = p[len("unwind"):].strip().lstrip(":").strip()
                out["unwind"] = int(r[2:]) if r.startswith("bb") else r
            else:
                k, v = p.split(":")
                out[k.strip()] = int(v.strip()[2:])
    elif txt.startswith("bb"):
        out["return"] = int(txt[2:])
    elif txt.startswith("unwind"):
        r = txt[len("unwind"):].strip().lstrip(":").strip()
        out["unwind"] = int(r[2:]) if r.startswith("bb") else r
    return out


def parse_terminator(s: str) -> Term:
    s = s.strip()
    raw = s
    if s.endswith(";"):
        s = s[:-1]
    if s == "return":
        return Term("return", raw=raw)
    if s == "unreachable":
        return Term("unreachable", raw=raw)
    if s.startswith("resume"):
        return Term("resume", raw=raw)
    if s.startswith("abort") or s.startswith("terminate"):
        return Term("terminate", raw=raw)
    if s.startswith("goto -> bb"):
        return Term("goto", targets={"return": int(s[len("goto -> bb"):])}, raw=raw)
    if s.startswith("falseEdge") or s.startswith("falseUnwind"):
        m = re.search(r"real: bb(\d+)", s)
        return Term("goto", targets={"return": int(m.group(1))}, raw=raw)
    if s.startswith("switchInt("):
        end = match_paren(s, len("switchInt"))
        op = parse_operand(s[len("switchInt("):end])
        rest = s[end + 1:].strip()
        assert rest.startswith("->"), s
        lst = rest[2:].strip()
        cases = []
        for p in split_top(lst[1:-1]):
            k, v = p.rsplit(":", 1)
            k = k.strip()
            cases.append((k if k == "otherwise" else int(k), int(v.strip()[2:])))
        return Term("switch", operand=op, targets={"cases": cases}, raw=raw)
    if s.startswith("drop("):
        end = match_paren(s, 4)
        pl = parse_place(s[5:end])
        rest = s[end + 1:].strip()
        t = _parse_targets(rest[2:]) if rest.startswith("->") else {}
        return Term("drop", place=pl, targets=t, raw=raw)
    if s.startswith("assert("):
        end = match_paren(s, 6)
        parts = split_top(s[7:end])
        cond = parts[0].strip()
        neg = False
        if cond.startswith("!"):
            neg = True
            cond = cond[1:]
        op = parse_operand(cond)
        rest = s[end + 1:].strip()
        t = _parse_targets(rest[2:]) if rest.startswith("->") else {}
        return Term("assert", operand=op, negate=neg, msg=parts[1] if len(parts) > 1 else "", targets=t, raw=raw)
    # call:  DEST = FUNC(args) -> targets
    k = find_top(s, " = ")
    if k >= 0:
        dest = parse_place(s[:k])
        rhs = s[k + 3:]
    else:
        dest = None
        rhs = s
    ka = find_top(rhs, " -> ")
    tg = {}
    if ka >= 0:
        tg = _parse_targets(rhs[ka + 4:])
        rhs = rhs[:ka].rstrip()
    if not rhs.endswith(")"):
        raise ParseError(f"bad terminator {raw!r}")
    j = len(rhs) - 1
    depth = 0
    while j >= 0:
        if rhs[j] == ")":
            depth += 1
        elif rhs[j] == "(":
            depth -= 1
            if depth == 0:
                break
        j -= 1
    func = rhs[:j].strip()
    args = [parse_operand(p) for p in split_top(rhs[j + 1:-1]) if p]
    return Term("call", place=dest, func=func, args=args, targets=tg, raw=raw)


def parse_statement(s: str) -> Stmt:
    s = s.strip()
    raw = s
    if s.endswith(";"):
        s = s[:-1]
    if s == "nop":
        return Stmt("nop", raw=raw)
    for kw in ("StorageLive(", "StorageDead(", "Retag(", "FakeRead(", "PlaceMention(", "AscribeUserType(",
               "Coverage::", "ConstEvalCounter", "assume(", "BackwardIncompatibleDropHint("):
        if s.startswith(kw):
            return Stmt("nop", raw=raw)
    if s.startswith("discriminant("):
        end = match_paren(s, len("discriminant"))
        pl = parse_place(s[len("discriminant("):end])
        return Stmt("setdiscr", place=pl, variant=s[end + 1:].split("=")[1].strip(), raw=raw)
    k = find_top(s, " = ")
    if k < 0:
        raise ParseError(f"bad statement {raw!r}")
    return Stmt("assign", place=parse_place(s[:k]), rvalue=parse_rvalue(s[k + 3:]), raw=raw)


_FN_RE = re.compile(r"^fn (.*)$")
_BB_RE = re.compile(r"^\s*bb(\d+)( \(cleanup\))?: \{\s*$")
_LET_RE = re.compile(r"^\s*let (?:mut )?_(\d+): (.*);\s*$")
_DEBUG_RE = re.compile(r"^\s*debug (.*?) => (.*);\s*$")


def _is_terminator(line: str) -> bool:
    s = line.strip()
    if s.startswith(("goto ->", "switchInt(", "return;", "unreachable;", "resume", "drop(", "assert(", "abort",
                     "terminate", "falseEdge", "falseUnwind")):
        return True
    return False


def parse_function(lines: List[str]) -> Function:
    header = lines[0]
    assert header.startswith("fn "), header
    # header may span a single line: fn NAME(args) -> RET {
    h = header[3:].rstrip()
    assert h.endswith("{"), header
    h = h[:-1].rstrip()
    # find parameter list: the last top-level '(' ... ')' before ' -> '
    karrow = -1
    depth = 0
    i = 0
    # scan for the top-level " -> " that follows the parameter list
    ppos = None
    n = len(h)
    while i < n:
        c = h[i]
        if c in "([{":
            if depth == 0 and c == "(":
                ppos = i
            depth += 1
        elif c in ")]}":
            depth -= 1
        elif c == "<":
            depth += 1
        elif c == ">" and not (i > 0 and h[i - 1] in "-="):
            depth -= 1
        if depth == 0 and h.startswith(") -> ", i):
            karrow = i
            break
        i += 1
    if karrow < 0:
        raise ParseError("fn header: " + header)
    # the parameter list opens at the '(' matching karrow's ')'
    j = karrow
    d = 0
    while j >= 0:
        if h[j] == ")":
            d += 1
        elif h[j] == "(":
            d -= 1
            if d == 0:
                break
        j -= 1
    name = h[:j].strip()
    params = [p for p in split_top(h[j + 1:karrow]) if p]
    ret_ty = h[karrow + 5:].strip()
    locals_: Dict[int, str] = {}
    for p in params:
        m = re.match(r"_(\d+): (.*)$", p, re.S)
        locals_[int(m.group(1))] = m.group(2).strip()
    debug: Dict[str, str] = {}
    blocks: Dict[int, Block] = {}
    i = 1
    nl = len(lines)
    while i < nl:
        line = lines[i]
        m = _BB_RE.match(line)
        if m:
            idx = int(m.group(1))
            cleanup = bool(m.group(2))
            i += 1
            body = []
            while i < nl and lines[i].strip() != "}":
                # statements may span multiple lines only for string constants with newlines (rare)
                body.append(lines[i])
                i += 1
            stmts = []
            term = None
            # join continuation lines: a statement ends with ';'
            joined, cur = [], ""
            for b in body:
                cur = (cur + "\n" + b) if cur else b
                if b.rstrip().endswith(";"):
                    joined.append(cur)
                    cur = ""
            if cur.strip():
                joined.append(cur)
            for k, st in enumerate(joined):
                last = k == len(joined) - 1
                if last:
                    if _is_terminator(st) or find_top(st.strip(), " -> ") >= 0 or not find_top(st.strip(), " = ") >= 0:
                        term = parse_terminator(st)
                    else:
                        # a call without targets cannot occur; treat as statement then error
                        raise ParseError("block without terminator: " + st)
                else:
                    stmts.append(parse_statement(st))
            blocks[idx] = Block(idx, cleanup, stmts, term)
            i += 1
            continue
        m = _LET_RE.match(line)
        if m:
            locals_[int(m.group(1))] = m.group(2).strip()
        else:
            m = _DEBUG_RE.match(line)
            if m:
                debug[m.group(1)] = m.group(2)
        i += 1
    nargs = len(params)
    return Function(name=name, nargs=nargs, ret_ty=ret_ty, locals=locals_, debug=debug, blocks=blocks,
                    text="\n".join(lines))


def parse_mir(text: str) -> Dict[str, Function]:
    """Parse a whole -Zunpretty=mir dump.  Returns {header-name: Function}.  Promoted constants
    ('const NAME::promoted[0]: T = {') and statics are parsed too (name keeps the prefix)."""
    lines = text.split("\n")
    fns: Dict[str, Function] = {}
    i, n = 0, len(lines)
    while i < n:
        line = lines[i]
        if (line.startswith("const ") or line.startswith("static ")) and not line.rstrip().endswith("{"):
            i += 1          # one-line item (`const NAME: T = const VALUE;`): no body
            continue
        if line.startswith("fn ") or line.startswith("const ") or line.startswith("static "):
            j = i + 1
            while j < n and lines[j] != "}":
                j += 1
            chunk = lines[i:j + 1]
            if line.startswith("fn "):
                f = parse_function(chunk)
                fns[f.name] = f
            else:
                # promoted / const body:  const NAME: TYPE = {
                m = re.match(r"^(?:const|static(?: mut)?) (.*): (.*?) = \{$", line)
                if m:
                    hdr = f"fn {m.group(1)}() -> {m.group(2)} {{"
                    try:
                        f = parse_function([hdr] + chunk[1:])
                        f.promoted = True
                        fns[f.name] = f
                    except ParseError:
                        pass
            i = j + 1
        else:
            i += 1
    return fns


if __name__ == "__main__":
    import sys
    fns = parse_mir(open(sys.argv[1]).read())
    print(len(fns), "functions")
    nb = sum(len(f.blocks) for f in fns.values())
    print(nb, "blocks")
