"""Model library, part 2: more Option/Result combinators, Ord::cmp, Arc, Range, Vec::extend, format!."""
import re
from translate import Translator, Loc, VScalar, VRef, VLoc, VAgg, VUnit, VConst, TranslateError, StructN, ScalarN, UnitN, RefN, sub
from models import model, rx, REG, _opt_loc, _arr, self_loc, eq_expr, panic, zero_default
from rtypes import parse_type


@model("core::slice::get", doc="slice.get(i): Some(&elem) iff i < len")
def m_slice_get2(tr, c):
    return REG.lookup("core::slice::<impl [T]>::get")(tr, c)


@model("Option::and_then", doc="Option::and_then(f)")
def m_opt_and_then(tr, c):
    o = _opt_loc(tr, c.args[0])
    si = o.node.vindex("Some")
    dd = tr.lv(Loc(o.node.discr, o.idxs))
    d = c.dest()
    tr.emit(f"if ({dd} == {si}) {{")
    tr.call_closure(c.inst, c.args[1], [VLoc(Loc(o.node.variants[si][1].fields[0], o.idxs))], d)
    tr.emit(f"}} else {{ {tr.lv(Loc(d.node.discr, d.idxs))} = {d.node.vindex('None')}; }}")


@model("Result::err", "Result::ok", doc="Result -> Option of one side")
def m_res_side(tr, c):
    o = _opt_loc(tr, c.args[0])
    side = "Err" if c.key.endswith("::err") else "Ok"
    vi = o.node.vindex(side)
    d = c.dest()
    n = d.node
    si, ni = n.vindex("Some"), n.vindex("None")
    tr.emit(f"if ({tr.lv(Loc(o.node.discr, o.idxs))} == {vi}) {{ {tr.lv(Loc(n.discr, d.idxs))} = {si};")
    if o.node.variants[vi][1].fields:
        tr.copy(Loc(n.variants[si][1].fields[0], d.idxs), Loc(o.node.variants[vi][1].fields[0], o.idxs))
    tr.emit(f"}} else {{ {tr.lv(Loc(n.discr, d.idxs))} = {ni}; }}")


@model("Option::cloned", "Option::copied", doc="Option<&T> -> Option<T>")
def m_opt_cloned(tr, c):
    o = _opt_loc(tr, c.args[0])
    d = c.dest()
    n = d.node
    si, ni = n.vindex("Some"), n.vindex("None")
    osi = o.node.vindex("Some")
    tr.emit(f"if ({tr.lv(Loc(o.node.discr, o.idxs))} == {osi}) {{ {tr.lv(Loc(n.discr, d.idxs))} = {si};")
    src = Loc(o.node.variants[osi][1].fields[0], o.idxs)
    if src.node.kind == "ref":
        src = tr.deref(VLoc(src))
    tr.copy(Loc(n.variants[si][1].fields[0], d.idxs), src)
    tr.emit(f"}} else {{ {tr.lv(Loc(n.discr, d.idxs))} = {ni}; }}")


@model(rx(r"<(usize|u64|u8|u32|u128|isize) as Ord>::cmp"), doc="integer Ord::cmp -> Ordering")
def m_int_cmp(tr, c):
    def val(v):
        try:
            return tr.as_scalar(v).expr
        except TranslateError:
            loc = tr.deref(v)
            return tr.as_scalar(VLoc(loc)).expr
    a, b = val(c.args[0]), val(c.args[1])
    d = c.dest()
    n = d.node
    tr.emit(f"{tr.lv(Loc(n.discr, d.idxs))} = (({a}) < ({b})) ? {n.vindex('Less')} : ((({a}) == ({b})) ? {n.vindex('Equal')} : {n.vindex('Greater')});")


@model("<Arc as Deref>::deref", "<Box as Deref>::deref", "<Arc as AsRef>::as_ref", "<Box as DerefMut>::deref_mut", "<Arc as Clone>::clone_ref",
       doc="Arc/Box deref: reference to the single shared value")
def m_arc_deref(tr, c):
    a = self_loc(tr, c.args[0])
    if a.node.kind == "struct" and a.node.tag == "Box":
        c.ret(VRef(a.node.fields[0], a.idxs))
    else:
        c.ret(VRef(a.node, a.idxs))


@model("Option::as_deref", doc="Option<Arc<T>> / Option<Box<T>> -> Option<&T>")
def m_opt_as_deref(tr, c):
    o = _opt_loc(tr, c.args[0])
    d = c.dest()
    n = d.node
    si = o.node.vindex("Some")
    tr.emit(f"{tr.lv(Loc(n.discr, d.idxs))} = {tr.lv(Loc(o.node.discr, o.idxs))};")
    inner = o.node.variants[si][1].fields[0]
    if inner.kind == "struct" and inner.tag == "Box":
        inner = inner.fields[0]
    tr.store(Loc(n.variants[n.vindex('Some')][1].fields[0], d.idxs), VRef(inner, o.idxs))


def t_range(tr, ty, name, dims, storage, g):
    s = StructN(ty, name, dims, storage, "Range")
    for f in ("start", "end"):
        s.fields.append(ScalarN(None, f"{name}_{f}", dims, storage, "usize"))
        s.names.append(f)
    return s


@model("<Range as Iterator>::next", doc="Range<usize>::next")
def m_range_next(tr, c):
    r = self_loc(tr, c.args[0])
    if r.node.kind == "struct" and r.node.tag == "BRange":
        import mvmodels
        return mvmodels.m_brange_next(tr, c)
    d = c.dest()
    n = d.node
    st, en = tr.lv(Loc(r.node.f("start"), r.idxs)), tr.lv(Loc(r.node.f("end"), r.idxs))
    si, ni = n.vindex("Some"), n.vindex("None")
    tr.emit(f"if ({st} < {en}) {{ {tr.lv(Loc(n.discr, d.idxs))} = {si}; {tr.lv(Loc(n.variants[si][1].fields[0], d.idxs))} = {st}; {st} = {st} + 1; }} "
            f"else {{ {tr.lv(Loc(n.discr, d.idxs))} = {ni}; }}")


@model("<Vec as Extend>::extend", "Vec::append", "Vec::extend_from_slice", doc="append all elements of another Vec, in order (BOUND: capacity)")
def m_vec_extend(tr, c):
    a = _arr(tr, c.args[0])
    v = c.args[1]
    b = v.loc if isinstance(v, VLoc) and v.loc.node.kind == "arr" else _arr(tr, v)
    la, lb = tr.lv(Loc(a.node.len, a.idxs)), tr.lv(Loc(b.node.len, b.idxs))
    for k in range(b.node.cap):
        tr.emit(f"if ({k} < {lb}) {{")
        tr.emit(f'__CPROVER_assert({la} < {a.node.cap}, "BOUND Vec::extend within model capacity"); __CPROVER_assume({la} < {a.node.cap});')
        ix = tr.tmp("usize", "ix")
        tr.emit(f"{ix} = {la};")
        tr.copy(Loc(a.node.elem, a.idxs + [ix]), Loc(b.node.elem, b.idxs + [str(k)]))
        tr.emit(f"{la} = {la} + 1; }}")


@model("format", "std::fmt::format", "alloc::fmt::format", "must_use", doc="format!(): an opaque String (tag 65535 = formatted text)")
def m_format(tr, c):
    d = c.dest()
    if d is None:
        return
    if c.key == "must_use":
        return c.ret(c.args[0])
    if d.node.kind == "struct" and d.node.tag == "String":
        tr.emit(f"{tr.lv(Loc(d.node.fields[0], d.idxs))} = 65535;")


@model(rx(r"<(u64|usize|u8|u32|bool) as (PartialEq|PartialOrd)>::(eq|ne|lt|le|gt|ge)"), doc="integer comparisons through references")
def m_int_rel(tr, c):
    def val(v):
        try:
            return tr.as_scalar(v).expr
        except TranslateError:
            return tr.as_scalar(VLoc(tr.deref(v))).expr
    op = {"eq": "==", "ne": "!=", "lt": "<", "le": "<=", "gt": ">", "ge": ">="}[c.key.split("::")[-1]]
    c.ret(VScalar(f"(({val(c.args[0])}) {op} ({val(c.args[1])}))", "_Bool"))


# ---- atomics (rest of the RMW family) -----------------------------------------------------------
from models import _rmw
REG.add("Atomic::fetch_xor", _rmw(lambda c, v: f"({c} ^ {v})"), "SC atomic fetch_xor, returns previous")
REG.add("Atomic::fetch_nand", _rmw(lambda c, v: f"(!({c} & {v}))"), "SC atomic fetch_nand (bool), returns previous")


@model("Atomic::fetch_update", doc="not modelled")
def m_fetch_update(tr, c):
    raise TranslateError("Atomic::fetch_update is not modelled")


@model("Atomic::into_inner", "Atomic::get_mut")
def m_atomic_inner(tr, c):
    from models import _atomic_cell
    c.ret(VScalar(_atomic_cell(c), "usize"))


# ---- Option / Result predicates with closures ---------------------------------------------------
@model("Option::is_some_and", "Option::is_none_or", "Result::is_ok_and", "Result::is_err_and", doc="predicate combinators")
def m_is_some_and(tr, c):
    o = _opt_loc(tr, c.args[0])
    name = c.key.split("::")[-1]
    which = {"is_some_and": "Some", "is_none_or": "Some", "is_ok_and": "Ok", "is_err_and": "Err"}[name]
    vi = o.node.vindex(which)
    d = c.dest()
    tmpn = tr.alloc(parse_type("bool"), f"predn{tr.tmpn}_{tr.uid}", [], tr.cur.storage)
    tr.tmpn += 1
    tr.emit(f"if ({tr.lv(Loc(o.node.discr, o.idxs))} == {vi}) {{")
    tr.call_closure(c.inst, c.args[1], [VLoc(Loc(o.node.variants[vi][1].fields[0], o.idxs))], Loc(tmpn, []))
    tr.emit(f"{tr.lv(d)} = {tmpn.name};")
    tr.emit(f"}} else {{ {tr.lv(d)} = {'1' if name == 'is_none_or' else '0'}; }}")


@model("Option::unwrap_or_else", "Result::unwrap_or_else")
def m_unwrap_or_else(tr, c):
    o = _opt_loc(tr, c.args[0])
    good = "Some" if any(v == "Some" for v, _ in o.node.variants) else "Ok"
    gi = o.node.vindex(good)
    d = c.dest()
    tr.emit(f"if ({tr.lv(Loc(o.node.discr, o.idxs))} == {gi}) {{")
    tr.copy(d, Loc(o.node.variants[gi][1].fields[0], o.idxs))
    tr.emit("} else {")
    if good == "Some":
        tr.call_closure(c.inst, c.args[1], [], d)
    else:
        bi = o.node.vindex("Err")
        tr.call_closure(c.inst, c.args[1], [VLoc(Loc(o.node.variants[bi][1].fields[0], o.idxs))], d)
    tr.emit("}")


@model("Option::unwrap_or_default", "Result::unwrap_or_default")
def m_unwrap_or_default(tr, c):
    o = _opt_loc(tr, c.args[0])
    good = "Some" if any(v == "Some" for v, _ in o.node.variants) else "Ok"
    gi = o.node.vindex(good)
    d = c.dest()
    tr.emit(f"if ({tr.lv(Loc(o.node.discr, o.idxs))} == {gi}) {{")
    tr.copy(d, Loc(o.node.variants[gi][1].fields[0], o.idxs))
    tr.emit("} else {")
    tyn = d.node.ty.name if d.node.ty is not None and d.node.ty.kind == "path" else None
    dm = REG.lookup(f"<{tyn} as Default>::default") if tyn else None
    if dm is not None and tyn not in ("Option", "Vec"):
        import itermodels
        dm(tr, itermodels.ICtx(tr, c.inst, f"<{tyn} as Default>::default", [], d))
    else:
        zero_default(tr, d)
    tr.emit("}")


@model("Option::ok_or", doc="Option::ok_or(err)")
def m_ok_or(tr, c):
    o = _opt_loc(tr, c.args[0])
    si = o.node.vindex("Some")
    d = c.dest()
    n = d.node
    tr.emit(f"if ({tr.lv(Loc(o.node.discr, o.idxs))} == {si}) {{ {tr.lv(Loc(n.discr, d.idxs))} = {n.vindex('Ok')};")
    tr.copy(Loc(n.variants[n.vindex('Ok')][1].fields[0], d.idxs), Loc(o.node.variants[si][1].fields[0], o.idxs))
    tr.emit(f"}} else {{ {tr.lv(Loc(n.discr, d.idxs))} = {n.vindex('Err')};")
    tr.store(Loc(n.variants[n.vindex('Err')][1].fields[0], d.idxs), c.args[1])
    tr.emit("}")


@model("Option::or", doc="Option::or(other)")
def m_opt_or(tr, c):
    o = _opt_loc(tr, c.args[0])
    d = c.dest()
    tr.emit(f"if ({tr.lv(Loc(o.node.discr, o.idxs))} == {o.node.vindex('Some')}) {{")
    tr.copy(d, o)
    tr.emit("} else {")
    tr.store(d, c.args[1])
    tr.emit("}")


@model("Option::is_some_or", doc="n/a")
def _na(tr, c):
    raise TranslateError("not modelled")


@model("Result::map", doc="Result::map(f)")
def m_res_map(tr, c):
    o = _opt_loc(tr, c.args[0])
    oki, erri = o.node.vindex("Ok"), o.node.vindex("Err")
    d = c.dest()
    n = d.node
    tr.emit(f"if ({tr.lv(Loc(o.node.discr, o.idxs))} == {oki}) {{ {tr.lv(Loc(n.discr, d.idxs))} = {n.vindex('Ok')};")
    okf = n.variants[n.vindex('Ok')][1].fields
    src = o.node.variants[oki][1].fields
    tr.call_closure(c.inst, c.args[1], [VLoc(Loc(src[0], o.idxs))] if src else [VUnit()], Loc(okf[0], d.idxs) if okf else None)
    tr.emit(f"}} else {{ {tr.lv(Loc(n.discr, d.idxs))} = {n.vindex('Err')};")
    tr.copy(Loc(n.variants[n.vindex('Err')][1].fields[0], d.idxs), Loc(o.node.variants[erri][1].fields[0], o.idxs))
    tr.emit("}")


@model("Result::map_or", doc="Result::map_or(default, f)")
def m_res_map_or(tr, c):
    o = _opt_loc(tr, c.args[0])
    oki = o.node.vindex("Ok")
    d = c.dest(like=c.args[1])
    tr.emit(f"if ({tr.lv(Loc(o.node.discr, o.idxs))} == {oki}) {{")
    tr.call_closure(c.inst, c.args[2], [VLoc(Loc(o.node.variants[oki][1].fields[0], o.idxs))], d)
    tr.emit("} else {")
    tr.store(d, c.args[1])
    tr.emit("}")


@model("Result::and_then", doc="Result::and_then(f)")
def m_res_and_then(tr, c):
    o = _opt_loc(tr, c.args[0])
    oki, erri = o.node.vindex("Ok"), o.node.vindex("Err")
    d = c.dest()
    n = d.node
    tr.emit(f"if ({tr.lv(Loc(o.node.discr, o.idxs))} == {oki}) {{")
    src = o.node.variants[oki][1].fields
    tr.call_closure(c.inst, c.args[1], [VLoc(Loc(src[0], o.idxs))] if src else [VUnit()], d)
    tr.emit(f"}} else {{ {tr.lv(Loc(n.discr, d.idxs))} = {n.vindex('Err')};")
    tr.copy(Loc(n.variants[n.vindex('Err')][1].fields[0], d.idxs), Loc(o.node.variants[erri][1].fields[0], o.idxs))
    tr.emit("}")


@model(rx(r"(core::num::<impl )?(usize|u64|u8|u32)>?::(wrapping_add|wrapping_sub)"))
def m_wrapping(tr, c):
    a, b = tr.as_scalar(c.args[0]), tr.as_scalar(c.args[1])
    op = "+" if c.key.endswith("add") else "-"
    c.ret(VScalar(f"(({a.ctype})(({a.expr}) {op} ({b.expr})))", a.ctype))


@model(rx(r"(core::num::<impl )?(usize|u64|u8|u32)>?::(abs_diff)"))
def m_abs_diff(tr, c):
    a, b = tr.as_scalar(c.args[0]), tr.as_scalar(c.args[1])
    c.ret(VScalar(f"(({a.expr}) > ({b.expr}) ? ({a.expr}) - ({b.expr}) : ({b.expr}) - ({a.expr}))", a.ctype))


def t_vec_intoiter(tr, ty, name, dims, storage, g):
    s_ = StructN(ty, name, dims, storage, "VecIntoIter")
    s_.fields.append(RefN(None, name + "_vec", dims, storage))
    s_.names.append("vec")
    s_.fields.append(ScalarN(None, name + "_pos", dims, storage, "usize"))
    s_.names.append("pos")
    return s_


@model("<Vec as IntoIterator>::into_iter", doc="by-value Vec iteration: elements in order")
def m_vec_into_iter(tr, c):
    v = c.args[0]
    a = v.loc if isinstance(v, VLoc) else _arr(tr, v)
    d = c.dest()
    if not (d.node.kind == "struct" and d.node.tag == "VecIntoIter"):
        raise TranslateError(f"Vec::into_iter into {d.node.name}")
    tr.store(Loc(d.node.f("vec"), d.idxs), VRef(a.node, a.idxs))
    tr.emit(f"{tr.lv(Loc(d.node.f('pos'), d.idxs))} = 0;")


def m_vec_intoiter_next(tr, c):
    itl = tr.deref(c.args[0])
    a = tr.deref(VLoc(Loc(itl.node.f("vec"), itl.idxs)))
    pos = tr.lv(Loc(itl.node.f("pos"), itl.idxs))
    ln = tr.lv(Loc(a.node.len, a.idxs))
    d = c.dest()
    n = d.node
    si, ni = n.vindex("Some"), n.vindex("None")
    pc = tr.tmp("usize", "posc")
    tr.emit(f"{pc} = ({pos} < {a.node.cap}) ? {pos} : 0;")
    tr.emit(f"if ({pos} < {ln}) {{ {tr.lv(Loc(n.discr, d.idxs))} = {si};")
    tr.copy(Loc(n.variants[si][1].fields[0], d.idxs), Loc(a.node.elem, a.idxs + [pc]))
    tr.emit(f"{pos} = {pos} + 1; }} else {{ {tr.lv(Loc(n.discr, d.idxs))} = {ni}; }}")


def t_cell(tr, ty, name, dims, storage, g):
    """Cell<T> / RefCell<T> (single-threaded interior mutability): the value itself"""
    return tr.alloc(ty.args[0], name, dims, storage, g)


@model("Cell::get", "Cell::take", "Cell::into_inner", doc="Cell accessors")
def m_cell_get(tr, c):
    cell = tr.deref(c.args[0]) if not isinstance(c.args[0], VLoc) or c.args[0].loc.node.kind == "ref" else c.args[0].loc
    d = c.dest()
    tr.copy(d, cell)
    if c.key.endswith("take"):
        zero_default(tr, cell)


@model("Cell::new", doc="Cell::new(v)")
def m_cell_new(tr, c):
    c.ret(c.args[0])


def install(tr):
    tr.type_models.setdefault("Range", t_range)
    tr.type_models.setdefault("Cell", t_cell)
    old_into = tr.type_models.get("IntoIter")

    def intoiter_dispatch(tr_, ty, name, dims, storage, g):
        if "vec" in ty.full:
            return t_vec_intoiter(tr_, ty, name, dims, storage, g)
        if old_into:
            return old_into(tr_, ty, name, dims, storage, g)
        raise TranslateError(f"no IntoIter model for {ty.full}")
    tr.type_models["IntoIter"] = intoiter_dispatch
