"""Model library: layouts for library types and translation-time models of library callees.

Every model is listed with its contract in MODEL_DOC (reported in evidence).  A callee with neither a MIR
body nor a model makes the translation fail (inconclusive), it is never skipped silently.
"""
import re
from typing import List, Dict, Any, Callable, Optional
from rtypes import Ty, parse_type, UNIT
from translate import (Translator, TranslateError, SNode, ScalarN, RefN, UnitN, StructN, EnumN, ArrN, Loc, VScalar,
                       VRef, VLoc, VAgg, VUnit, VConst, VPyClosure, CallCtx, sub, Storage)

MODEL_DOC: Dict[str, str] = {}


class Registry:
    def __init__(self):
        self.exact: Dict[str, Callable] = {}
        self.regex: List = []

    def add(self, key, fn, doc=""):
        if isinstance(key, str):
            self.exact[key] = fn
        else:
            self.regex.append((key, fn))
        MODEL_DOC[key if isinstance(key, str) else key.pattern] = doc or (fn.__doc__ or "").strip()

    def lookup(self, key: str):
        if key in self.exact:
            return self.exact[key]
        for r, fn in self.regex:
            if r.fullmatch(key):
                return fn
        return None


REG = Registry()


def model(*keys, doc=""):
    def deco(fn):
        for k in keys:
            REG.add(k, fn, doc or (fn.__doc__ or "").strip())
        return fn
    return deco


def rx(p):
    return re.compile(p)


# ---------------------------------------------------------------------------------------------
# helpers
# ---------------------------------------------------------------------------------------------

def atomic_begin(tr: Translator):
    tr.emit("__CPROVER_atomic_begin();")


def atomic_end(tr: Translator):
    tr.emit("__CPROVER_atomic_end();")


def visible(tr: Translator, what=""):
    """hook for schedule bookkeeping at a visible operation (ghost 'progress' stamp for stutter elimination)"""
    if tr.cfg.get("progress_stamp"):
        tr.emit("g_progress++;")


def through_refs(tr: Translator, v) -> Loc:
    """location a value of type &T / &&T / &mut T refers to"""
    loc = tr.deref(v)
    return loc


def self_loc(tr: Translator, v, tag=None) -> Loc:
    loc = tr.deref(v)
    while loc.node.kind == "ref":
        loc = tr.deref(VLoc(loc))
    if tag and not (loc.node.kind == "struct" and loc.node.tag == tag):
        # transparent newtype wrappers (e.g. AHashSet(HashSet))
        if loc.node.kind == "struct" and len(loc.node.fields) == 1:
            return self_loc(tr, VRef(loc.node.fields[0], loc.idxs), tag)
        raise TranslateError(f"expected {tag}, found {loc.node.kind}/{getattr(loc.node, 'tag', None)} {loc.node.name}")
    return loc


def scalar_leaves(node: SNode, idxs: List[str]) -> List[str]:
    out = []
    if node.kind == "scalar":
        out.append(node.name + sub(idxs))
    elif node.kind == "struct":
        for f in node.fields:
            out += scalar_leaves(f, idxs)
    elif node.kind == "enum":
        out += scalar_leaves(node.discr, idxs)
        for _v, vs in node.variants:
            out += scalar_leaves(vs, idxs)
    elif node.kind == "arr":
        if node.len is not None:
            out += scalar_leaves(node.len, idxs)
        for k in range(node.cap):
            out += scalar_leaves(node.elem, idxs + [str(k)])
    return out


def eq_expr(tr: Translator, a: Loc, b: Loc) -> str:
    """structural equality (derive(PartialEq) semantics) of two locations with identical layout"""
    na, nb = a.node, b.node
    if na.kind != nb.kind:
        raise TranslateError(f"eq on different layouts {na.name} / {nb.name}")
    if na.kind == "scalar":
        return f"({tr.lv(a)} == {tr.lv(b)})"
    if na.kind == "unit":
        return "1"
    if na.kind == "struct":
        if na.tag == "Set":
            pa, pb = na.f("present"), nb.f("present")
            return "(" + " && ".join(
                f"({pa.elem.name}{sub(a.idxs + [str(k)])} == {pb.elem.name}{sub(b.idxs + [str(k)])})" for k in range(pa.cap)) + ")"
        parts = [eq_expr(tr, Loc(x, a.idxs), Loc(y, b.idxs)) for x, y in zip(na.fields, nb.fields)]
        return "(" + " && ".join(parts or ["1"]) + ")"
    if na.kind == "enum":
        da, db = tr.lv(Loc(na.discr, a.idxs)), tr.lv(Loc(nb.discr, b.idxs))
        parts = [f"({da} == {db})"]
        for i, ((_x, va), (_y, vb)) in enumerate(zip(na.variants, nb.variants)):
            if va.fields:
                parts.append(f"({da} != {i} || {eq_expr(tr, Loc(va, a.idxs), Loc(vb, b.idxs))})")
        return "(" + " && ".join(parts) + ")"
    if na.kind == "arr":
        parts = []
        if na.len is not None:
            la, lb = tr.lv(Loc(na.len, a.idxs)), tr.lv(Loc(nb.len, b.idxs))
            parts.append(f"({la} == {lb})")
            for k in range(na.cap):
                parts.append(f"({k} >= {la} || {eq_expr(tr, Loc(na.elem, a.idxs + [str(k)]), Loc(nb.elem, b.idxs + [str(k)]))})")
        else:
            for k in range(na.cap):
                parts.append(eq_expr(tr, Loc(na.elem, a.idxs + [str(k)]), Loc(nb.elem, b.idxs + [str(k)])))
        return "(" + " && ".join(parts or ["1"]) + ")"
    if na.kind == "ref":
        return eq_expr(tr, tr.deref(VLoc(a)), tr.deref(VLoc(b)))
    raise TranslateError("eq on " + na.kind)


def opt_some(v, variant="Some"):
    return VAgg([v], variant=variant)


def opt_none():
    return VAgg([], variant="None")


def ret_option_scalar(c: CallCtx, cond: str, val: str):
    """dest: Option<scalar> := cond ? Some(val) : None"""
    d = c.dest()
    n = d.node
    si, ni = n.vindex("Some"), n.vindex("None")
    c.tr.emit(f"{c.tr.lv(Loc(n.discr, d.idxs))} = ({cond}) ? {si} : {ni};")
    c.tr.emit(f"{c.tr.lv(Loc(n.variants[si][1].fields[0], d.idxs))} = {val};")


# ---------------------------------------------------------------------------------------------
# type models
# ---------------------------------------------------------------------------------------------

def t_atomic(tr, ty, name, dims, storage, g):
    s = StructN(ty, name, dims, storage, "Atomic")
    s.fields.append(tr.alloc(ty.args[0], name + "_v", dims, storage, g))
    s.names.append("v")
    return s


def t_vec(tr, ty, name, dims, storage, g):
    cap = tr.capacity(ty, name)
    a = ArrN(ty, name, dims, storage, cap)
    a.len = ScalarN(None, name + "_len", dims, storage, "usize")
    a.elem = tr.alloc(ty.args[0], name + "_e", dims + [cap], storage, g)
    return a


def _unlock(tr: Translator, loc: Loc):
    """drop of a MutexGuard: write the thread-private copy of the protected data back and release the lock
    (no-op when the guard was never bound)"""
    r = loc.node.fields[0]
    if r.target is None:
        return
    m = tr.deref(VLoc(Loc(r, loc.idxs)))
    lk = m.node.f("locked")
    cp = loc.node.fields[1]
    atomic_begin(tr)
    if cp.target is not None:
        tr.copy(Loc(m.node.f("data"), m.idxs), tr.deref(VLoc(Loc(cp, loc.idxs))))
    tr.emit(f"{tr.lv(Loc(lk, m.idxs))} = 0;")
    visible(tr)
    atomic_end(tr)
    h = tr.cfg.get("unlock_hook")
    if h:
        h(tr, m)
    tr.emit(f"/* unlock {m.node.name} */")


def t_mutex(tr, ty, name, dims, storage, g):
    s = StructN(ty, name, dims, storage, "Mutex")
    s.fields.append(ScalarN(None, name + "_locked", dims, storage, "_Bool"))
    s.names.append("locked")
    s.fields.append(tr.alloc(ty.args[-1], name + "_data", dims, storage, g))
    s.names.append("data")
    return s


def t_guard(tr, ty, name, dims, storage, g):
    s = StructN(ty, name, dims, storage, "Guard")
    s.fields.append(RefN(None, name + "_m", dims, storage))
    s.names.append("m")
    s.fields.append(RefN(None, name + "_c", dims, storage))
    s.names.append("c")
    s.extra["drop"] = _unlock
    return s


def t_set(tr, ty, name, dims, storage, g):
    """HashSet<K> for K = usize-like small keys: presence bitmap over 0..cap"""
    kt = ty.args[0] if ty.args else None
    if kt is not None and kt.kind == "path" and kt.name in g:
        kt = g[kt.name]
    if kt is None or tr.ctype_of(kt) is None:
        alt = tr.type_models.get("Set:" + (kt.key() if kt else "?"))
        if alt:
            return alt(tr, ty, name, dims, storage, g)
        raise TranslateError(f"no set model for element type {kt}")
    cap = tr.capacity(ty, name)
    s = StructN(ty, name, dims, storage, "Set")
    a = ArrN(None, name + "_present", dims, storage, cap)
    a.elem = ScalarN(None, name + "_p", dims + [cap], storage, "_Bool")
    s.fields.append(a)
    s.names.append("present")
    return s


def t_setiter(tr, ty, name, dims, storage, g):
    s = StructN(ty, name, dims, storage, "SetIter")
    s.fields.append(RefN(None, name + "_set", dims, storage))
    s.names.append("set")
    # visited bitmap allocated with the global default capacity; checked against the set on use
    cap = tr.cfg.get("set_iter_cap", tr.cap)
    a = ArrN(None, name + "_vis", dims, storage, cap)
    a.elem = ScalarN(None, name + "_v", dims + [cap], storage, "_Bool")
    s.fields.append(a)
    s.names.append("visited")
    # element reference target: a per-iterator scratch cell holding the yielded key
    s.fields.append(ScalarN(None, name + "_cur", dims, storage, "usize"))
    s.names.append("cur")
    return s


def t_option(tr, ty, name, dims, storage, g):
    return tr.make_enum(ty, name, dims, storage, [("None", []), ("Some", [ty.args[0]])], g)


def t_result(tr, ty, name, dims, storage, g):
    return tr.make_enum(ty, name, dims, storage, [("Ok", [ty.args[0]]), ("Err", [ty.args[1]])], g)


def t_unit(tr, ty, name, dims, storage, g):
    return UnitN(ty, name, dims, storage)


def t_ordering(tr, ty, name, dims, storage, g):
    if "atomic" in ty.full:
        return UnitN(ty, name, dims, storage)
    e = tr.make_enum(ty, name, dims, storage, [("Less", []), ("Equal", []), ("Greater", [])], g)
    e.discr_values = [255, 0, 1]       # cmp::Ordering is #[repr(i8)]: Less = -1 (printed as 255 in MIR switch targets)
    return e


def t_oncelock(tr, ty, name, dims, storage, g):
    s = StructN(ty, name, dims, storage, "OnceLock")
    s.fields.append(ScalarN(None, name + "_set", dims, storage, "_Bool"))
    s.names.append("set")
    s.fields.append(tr.alloc(ty.args[0], name + "_val", dims, storage, g))
    s.names.append("val")
    return s


def t_thread(tr, ty, name, dims, storage, g):
    s = StructN(ty, name, dims, storage, "Thread")
    s.fields.append(ScalarN(None, name + "_tid", dims, storage, "usize"))
    s.names.append("tid")
    return s


def t_transparent(tr, ty, name, dims, storage, g):
    """Box<T> / Arc<T>: one owned/shared value (sharing is by static shape, so Arc clones alias through refs)"""
    s = StructN(ty, name, dims, storage, "Box")
    s.fields.append(tr.alloc(ty.args[0], name + "_b", dims, storage, g))
    s.names.append("0")
    return s


def install_types(tr: Translator):
    tm = tr.type_models
    tm["Atomic"] = t_atomic
    tm["Vec"] = t_vec
    tm["Mutex"] = t_mutex
    tm["MutexGuard"] = t_guard
    for n in ("AHashSet", "HashSet"):
        tm[n] = t_set
    tm["Option"] = t_option
    tm["Result"] = t_result
    tm["Ordering"] = t_ordering
    tm["OnceLock"] = t_oncelock
    tm["Thread"] = t_thread
    tm["Box"] = t_transparent
    tm["Arc"] = t_transparent
    tm["ControlFlow"] = t_controlflow
    tm["Infallible"] = t_unit
    for n in ("Duration", "Instant", "PhantomData", "Arguments", "Argument", "String", "str", "Formatter", "Error",
              "ExecuteMetricsCollector", "Histogram", "Counter", "Gauge", "RandomState", "AssertKind"):
        tm[n] = t_unit
    tm["Iter"] = _t_iter_dispatch


def _t_iter_dispatch(tr, ty, name, dims, storage, g):
    if "hash_set" in ty.full or "hash::set" in ty.full:
        return t_setiter(tr, ty, name, dims, storage, g)
    alt = tr.type_models.get("Iter:" + ty.full)
    if alt:
        return alt(tr, ty, name, dims, storage, g)
    raise TranslateError(f"no iterator model for {ty.full}<{','.join(a.key() for a in ty.args)}>")


# ---------------------------------------------------------------------------------------------
# atomics
# ---------------------------------------------------------------------------------------------

def _atomic_cell(c: CallCtx) -> str:
    loc = self_loc(c.tr, c.args[0], "Atomic")
    return c.tr.lv(Loc(loc.node.fields[0], loc.idxs))


@model("Atomic::load", doc="SC atomic load (one atomic section)")
def m_atomic_load(tr, c):
    cell = _atomic_cell(c)
    d = c.dest()
    atomic_begin(tr)
    tr.emit(f"{tr.lv(d)} = {cell};")
    atomic_end(tr)


@model("Atomic::store", doc="SC atomic store")
def m_atomic_store(tr, c):
    cell = _atomic_cell(c)
    v = tr.as_scalar(c.args[1])
    atomic_begin(tr)
    tr.emit(f"{cell} = {v.expr};")
    visible(tr)
    atomic_end(tr)


def _rmw(expr_new):
    def m(tr, c):
        cell = _atomic_cell(c)
        v = tr.as_scalar(c.args[1])
        d = c.dest()
        atomic_begin(tr)
        if d is not None and d.node.kind == "scalar":
            tr.emit(f"{tr.lv(d)} = {cell};")
        tr.emit(f"{cell} = {expr_new(cell, v.expr)};")
        visible(tr)
        atomic_end(tr)
    return m


REG.add("Atomic::fetch_add", _rmw(lambda c, v: f"{c} + {v}"), "SC atomic fetch_add (wrapping), returns previous")
REG.add("Atomic::fetch_sub", _rmw(lambda c, v: f"{c} - {v}"), "SC atomic fetch_sub (wrapping), returns previous")
REG.add("Atomic::fetch_max", _rmw(lambda c, v: f"(({v}) > {c} ? ({v}) : {c})"), "SC atomic fetch_max, returns previous")
REG.add("Atomic::fetch_min", _rmw(lambda c, v: f"(({v}) < {c} ? ({v}) : {c})"), "SC atomic fetch_min, returns previous")
REG.add("Atomic::fetch_or", _rmw(lambda c, v: f"({c} | {v})"), "SC atomic fetch_or, returns previous")
REG.add("Atomic::fetch_and", _rmw(lambda c, v: f"({c} & {v})"), "SC atomic fetch_and, returns previous")
REG.add("Atomic::swap", _rmw(lambda c, v: f"{v}"), "SC atomic swap, returns previous")


def _cas(weak: bool):
    def m(tr, c):
        cell = _atomic_cell(c)
        cur = tr.as_scalar(c.args[1])
        new = tr.as_scalar(c.args[2])
        d = c.dest()
        n = d.node
        oki, erri = n.vindex("Ok"), n.vindex("Err")
        okf = tr.lv(Loc(n.variants[oki][1].fields[0], d.idxs))
        errf = tr.lv(Loc(n.variants[erri][1].fields[0], d.idxs))
        dd = tr.lv(Loc(n.discr, d.idxs))
        spur = "0"
        if weak and tr.cfg.get("weak_cas_spurious", True):
            sp = tr.tmp("_Bool", "spur")
            budget = "spur_budget"
            tr.emit(f"{sp} = nondet_bool();")
            tr.emit(f"if ({sp}) {{ if ({budget} == 0) {sp} = 0; else {budget}--; }}")
            spur = sp
        atomic_begin(tr)
        tr.emit(f"if ({cell} == {cur.expr} && !{spur}) {{ {okf} = {cell}; {cell} = {new.expr}; {dd} = {oki}; }} "
                f"else {{ {errf} = {cell}; {dd} = {erri}; }}")
        visible(tr)
        atomic_end(tr)
    return m


REG.add("Atomic::compare_exchange", _cas(False), "SC compare_exchange: Ok(prev) and store iff equal, else Err(current)")
REG.add("Atomic::compare_exchange_weak", _cas(True),
        "SC compare_exchange_weak: as compare_exchange, may additionally fail spuriously (bounded budget per thread)")


# ---------------------------------------------------------------------------------------------
# Vec / slices
# ---------------------------------------------------------------------------------------------

def _arr(tr, v) -> Loc:
    loc = tr.deref(v)
    while loc.node.kind == "ref":
        loc = tr.deref(VLoc(loc))
    while loc.node.kind == "struct" and loc.node.tag == "Box":
        loc = Loc(loc.node.fields[0], loc.idxs)
    if loc.node.kind != "arr":
        raise TranslateError(f"expected Vec/slice, found {loc.node.kind} {loc.node.name}")
    return loc


@model("<Vec as Index>::index", "<Vec as IndexMut>::index_mut", "<slice as Index>::index",
       doc="Vec indexing: asserts idx < len (Rust panics otherwise), returns a reference to the element")
def m_vec_index(tr, c):
    ixv = c.args[1]
    if isinstance(ixv, VAgg) or (isinstance(ixv, VLoc) and ixv.loc.node.kind == "struct"):
        # indexing by a range value yields a sub-slice, not an element
        fn = str(getattr(c, "func", ""))
        if "RangeFrom" in fn:
            return REG.lookup("<Vec as Index<RangeFrom>>::index")(tr, c)
        raise TranslateError(f"slice indexing by this range type is not modelled ({fn[:80]})")
    a = _arr(tr, c.args[0])
    i = tr.as_scalar(c.args[1])
    ix = tr.tmp("usize", "ix")
    tr.emit(f"{ix} = {i.expr};")
    if a.node.len is not None:
        ln = tr.lv(Loc(a.node.len, a.idxs))
        tr.emit(f'__CPROVER_assert({ix} < {ln}, "RUST-PANIC index out of bounds"); __CPROVER_assume({ix} < {ln});')
    tr.emit(f'__CPROVER_assert({ix} < {a.node.cap}, "BOUND index within model capacity"); __CPROVER_assume({ix} < {a.node.cap});')
    c.ret(VRef(a.node.elem, a.idxs + [ix]))


@model("Vec::len", "core::slice::<impl [T]>::len", doc="length field")
def m_vec_len(tr, c):
    a = _arr(tr, c.args[0])
    c.ret(VScalar(tr.lv(Loc(a.node.len, a.idxs)) if a.node.len is not None else str(a.node.cap), "usize"))


@model("Vec::is_empty", "core::slice::<impl [T]>::is_empty")
def m_vec_is_empty(tr, c):
    a = _arr(tr, c.args[0])
    c.ret(VScalar(f"({tr.lv(Loc(a.node.len, a.idxs))} == 0)", "_Bool"))


@model("<Vec as Deref>::deref", "<Vec as DerefMut>::deref_mut", "Vec::as_slice", "Vec::as_mut_slice",
       "<Vec as AsRef>::as_ref", doc="Vec -> slice view of the same storage")
def m_vec_deref(tr, c):
    a = _arr(tr, c.args[0])
    c.ret(VRef(a.node, a.idxs))


@model("core::slice::<impl [T]>::get", doc="slice.get(i): Some(&elem) iff i < len")
def m_slice_get(tr, c):
    a = _arr(tr, c.args[0])
    i = tr.as_scalar(c.args[1])
    ix = tr.tmp("usize", "ix")
    ln = tr.lv(Loc(a.node.len, a.idxs))
    tr.emit(f"{ix} = {i.expr};")
    tr.emit(f'__CPROVER_assert({ix} >= {ln} || {ix} < {a.node.cap}, "BOUND index within model capacity");')
    d = c.dest()
    n = d.node
    si, ni = n.vindex("Some"), n.vindex("None")
    tr.emit(f"{tr.lv(Loc(n.discr, d.idxs))} = ({ix} < {ln}) ? {si} : {ni};")
    clamp = tr.tmp("usize", "ixc")
    tr.emit(f"{clamp} = ({ix} < {ln}) ? {ix} : 0;")
    tr.store(Loc(n.variants[si][1].fields[0], d.idxs), VRef(a.node.elem, a.idxs + [clamp]))


@model("Vec::push", doc="append; asserts the model capacity is not exceeded (BOUND)")
def m_vec_push(tr, c):
    a = _arr(tr, c.args[0])
    ln = tr.lv(Loc(a.node.len, a.idxs))
    tr.emit(f'__CPROVER_assert({ln} < {a.node.cap}, "BOUND Vec::push within model capacity"); __CPROVER_assume({ln} < {a.node.cap});')
    ix = tr.tmp("usize", "ix")
    tr.emit(f"{ix} = {ln};")
    tr.store(Loc(a.node.elem, a.idxs + [ix]), c.args[1])
    tr.emit(f"{ln} = {ln} + 1;")


@model("Vec::new", "Vec::with_capacity", "<Vec as Default>::default", doc="empty vector")
def m_vec_new(tr, c):
    d = c.dest()
    if d.node.kind != "arr":
        raise TranslateError("Vec::new into non-array")
    tr.emit(f"{tr.lv(Loc(d.node.len, d.idxs))} = 0;")


@model("Vec::clear")
def m_vec_clear(tr, c):
    a = _arr(tr, c.args[0])
    tr.emit(f"{tr.lv(Loc(a.node.len, a.idxs))} = 0;")


# ---------------------------------------------------------------------------------------------
# parking_lot::Mutex
# ---------------------------------------------------------------------------------------------

def _acquire(tr, m: Loc, gloc: Loc, cond_prefix=""):
    """bind guard at gloc to mutex m: the protected data is copied into thread-private storage for the duration of
    the critical section (sound because Rust only exposes Mutex data through the guard) and written back at unlock"""
    tr.tmpn += 1
    cp = tr.clone(m.node.f("data"), f"cs{tr.tmpn}_{m.node.name}", [], tr.cur.storage)
    tr.copy(Loc(cp, []), Loc(m.node.f("data"), m.idxs))
    return cp


@model("Mutex::lock", doc="parking_lot mutex: atomic test-and-set; a blocked acquire is an assume (safety only); the "
                          "protected data is copied to thread-private storage inside the critical section and written back at unlock")
def m_mutex_lock(tr, c):
    m = self_loc(tr, c.args[0], "Mutex")
    lk = tr.lv(Loc(m.node.f("locked"), m.idxs))
    hook = tr.cfg.get("lock_hook")
    if hook:
        hook(tr, m, lk)
    d = c.dest()
    atomic_begin(tr)
    tr.emit(f"__CPROVER_assume(!{lk} || g_gate == 9); {lk} = 1;")
    cp = _acquire(tr, m, d)
    atomic_end(tr)
    tr.store(Loc(d.node.fields[0], d.idxs), VRef(m.node, m.idxs))
    tr.store(Loc(d.node.fields[1], d.idxs), VRef(cp, []))
    tr.emit(f"/* lock {m.node.name} */")


@model("Mutex::try_lock", doc="Some(guard) iff the lock was free")
def m_mutex_try_lock(tr, c):
    m = self_loc(tr, c.args[0], "Mutex")
    lk = tr.lv(Loc(m.node.f("locked"), m.idxs))
    d = c.dest()
    n = d.node
    si, ni = n.vindex("Some"), n.vindex("None")
    atomic_begin(tr)
    tr.emit(f"if (!{lk}) {{ {lk} = 1; {tr.lv(Loc(n.discr, d.idxs))} = {si}; }} else {{ {tr.lv(Loc(n.discr, d.idxs))} = {ni}; }}")
    cp = _acquire(tr, m, d)
    atomic_end(tr)
    g = n.variants[si][1].fields[0]
    tr.store(Loc(g.fields[0], d.idxs), VRef(m.node, m.idxs))
    tr.store(Loc(g.fields[1], d.idxs), VRef(cp, []))


@model("<MutexGuard as Deref>::deref", "<MutexGuard as DerefMut>::deref_mut", doc="guard -> protected data")
def m_guard_deref(tr, c):
    g = tr.deref(c.args[0])
    if not (g.node.kind == "struct" and g.node.tag == "Guard"):
        raise TranslateError(f"deref of non-guard {g.node.name}")
    cp = tr.deref(VLoc(Loc(g.node.fields[1], g.idxs)))
    c.ret(VRef(cp.node, cp.idxs))


@model("Mutex::new", doc="unlocked mutex holding the value")
def m_mutex_new(tr, c):
    d = c.dest()
    tr.emit(f"{tr.lv(Loc(d.node.f('locked'), d.idxs))} = 0;")
    tr.store(Loc(d.node.f("data"), d.idxs), c.args[0])


@model("Mutex::into_inner", "Mutex::get_mut")
def m_mutex_into_inner(tr, c):
    if c.key.endswith("get_mut"):
        m = self_loc(tr, c.args[0], "Mutex")
        c.ret(VRef(m.node.f("data"), m.idxs))
        return
    v = c.args[0]
    if isinstance(v, VLoc):
        c.ret(VLoc(Loc(v.loc.node.f("data"), v.loc.idxs)))
    else:
        raise TranslateError("Mutex::into_inner of non-location")


# ---------------------------------------------------------------------------------------------
# hash sets of small integers
# ---------------------------------------------------------------------------------------------

def _set(tr, v) -> Loc:
    return self_loc(tr, v, "Set")


@model("<AHashSet as Deref>::deref", "<AHashSet as DerefMut>::deref_mut", "<AHashMap as Deref>::deref",
       "<AHashMap as DerefMut>::deref_mut", doc="ahash wrappers are transparent")
def m_ahash_deref(tr, c):
    loc = tr.deref(c.args[0])
    c.ret(VRef(loc.node, loc.idxs))


@model("HashSet::is_empty", "AHashSet::is_empty")
def m_set_is_empty(tr, c):
    s = _set(tr, c.args[0])
    p = s.node.f("present")
    e = " && ".join(f"!{p.elem.name}{sub(s.idxs + [str(k)])}" for k in range(p.cap))
    c.ret(VScalar(f"({e})", "_Bool"))


@model("HashSet::len", "AHashSet::len")
def m_set_len(tr, c):
    s = _set(tr, c.args[0])
    p = s.node.f("present")
    e = " + ".join(f"(usize){p.elem.name}{sub(s.idxs + [str(k)])}" for k in range(p.cap))
    c.ret(VScalar(f"({e})", "usize"))


@model("HashSet::clear", "AHashSet::clear")
def m_set_clear(tr, c):
    s = _set(tr, c.args[0])
    p = s.node.f("present")
    for k in range(p.cap):
        tr.emit(f"{p.elem.name}{sub(s.idxs + [str(k)])} = 0;")


def _key_of(tr, v) -> str:
    """set key argument: by value or by reference"""
    import mvmodels
    try:
        return mvmodels.key_of(tr, v)
    except TranslateError:
        pass
    if isinstance(v, (VRef,)) or (isinstance(v, VLoc) and v.loc.node.kind == "ref"):
        loc = tr.deref(v)
        while loc.node.kind == "ref":
            loc = tr.deref(VLoc(loc))
        return tr.lv(loc)
    return tr.as_scalar(v).expr


@model("HashSet::insert", "AHashSet::insert", doc="set insert: returns true iff newly inserted; key < capacity (BOUND)")
def m_set_insert(tr, c):
    s = _set(tr, c.args[0])
    p = s.node.f("present")
    k = tr.tmp("usize", "k")
    tr.emit(f"{k} = {_key_of(tr, c.args[1])};")
    tr.emit(f'__CPROVER_assert({k} < {p.cap}, "BOUND set key within model capacity"); __CPROVER_assume({k} < {p.cap});')
    cell = f"{p.elem.name}{sub(s.idxs + [k])}"
    d = c.dest()
    if d is not None and d.node.kind == "scalar":
        tr.emit(f"{tr.lv(d)} = !{cell};")
    tr.emit(f"{cell} = 1;")
    if "keys" in s.node.names:
        tr.store(Loc(s.node.f("keys").elem, s.idxs + [k]), c.args[1])


@model("HashSet::contains", "AHashSet::contains")
def m_set_contains(tr, c):
    s = _set(tr, c.args[0])
    p = s.node.f("present")
    k = tr.tmp("usize", "k")
    tr.emit(f"{k} = {_key_of(tr, c.args[1])};")
    c.ret(VScalar(f"({k} < {p.cap} && {p.elem.name}{sub(s.idxs + ['(' + k + ' < ' + str(p.cap) + ' ? ' + k + ' : 0)'])})", "_Bool"))


@model("HashSet::remove", "AHashSet::remove")
def m_set_remove(tr, c):
    s = _set(tr, c.args[0])
    p = s.node.f("present")
    k = tr.tmp("usize", "k")
    tr.emit(f"{k} = {_key_of(tr, c.args[1])};")
    d = c.dest()
    tr.emit(f"if ({k} < {p.cap}) {{")
    cell = f"{p.elem.name}{sub(s.idxs + [k])}"
    if d is not None and d.node.kind == "scalar":
        tr.emit(f"{tr.lv(d)} = {cell};")
    tr.emit(f"{cell} = 0; }}" + (f" else {{ {tr.lv(d)} = 0; }}" if d is not None and d.node.kind == "scalar" else ""))


@model("HashSet::iter", "AHashSet::iter", "<&HashSet as IntoIterator>::into_iter", "<&AHashSet as IntoIterator>::into_iter",
       doc="hash-set iteration: every element exactly once, in an order chosen by the solver")
def m_set_iter(tr, c):
    s = _set(tr, c.args[0])
    d = c.dest()
    it = d.node
    if not (it.kind == "struct" and it.tag == "SetIter"):
        raise TranslateError(f"set iter into {it.name}")
    tr.store(Loc(it.f("set"), d.idxs), VRef(s.node, s.idxs))
    vis = it.f("visited")
    if vis.cap < s.node.f("present").cap:
        raise TranslateError("set iterator model smaller than the set")
    for k in range(vis.cap):
        tr.emit(f"{vis.elem.name}{sub(d.idxs + [str(k)])} = 0;")


@model("<Iter as IntoIterator>::into_iter", "<IntoIter as IntoIterator>::into_iter", "<Range as IntoIterator>::into_iter",
       "<Rev as IntoIterator>::into_iter", "<Copied as IntoIterator>::into_iter", "<Map as IntoIterator>::into_iter",
       "<Enumerate as IntoIterator>::into_iter", "<Filter as IntoIterator>::into_iter",
       doc="identity on iterators")
def m_into_iter_identity(tr, c):
    c.ret(c.args[0])


@model("<Iter as Iterator>::next", doc="set iterator: solver-chosen unvisited present element, None when exhausted")
def m_iter_next(tr, c):
    itl = tr.deref(c.args[0])
    it = itl.node
    if not (it.kind == "struct" and it.tag == "SetIter"):
        alt = tr.models.lookup("Iter::next:" + str(it.tag))
        if alt:
            return alt(tr, c)
        raise TranslateError(f"Iterator::next on {it.name} tag {getattr(it, 'tag', None)}")
    s = tr.deref(VLoc(Loc(it.f("set"), itl.idxs)))
    p = s.node.f("present")
    vis = it.f("visited")
    k = tr.tmp("usize", "pick")
    rem = " || ".join(f"({p.elem.name}{sub(s.idxs + [str(j)])} && !{vis.elem.name}{sub(itl.idxs + [str(j)])})" for j in range(p.cap))
    d = c.dest()
    n = d.node
    si, ni = n.vindex("Some"), n.vindex("None")
    dd = tr.lv(Loc(n.discr, d.idxs))
    tr.emit(f"if ({rem}) {{")
    tr.emit(f"  {k} = nondet_usize(); __CPROVER_assume({k} < {p.cap} && {p.elem.name}{sub(s.idxs + [k])} && !{vis.elem.name}{sub(itl.idxs + [k])});")
    tr.emit(f"  {vis.elem.name}{sub(itl.idxs + [k])} = 1; {tr.lv(Loc(it.f('cur'), itl.idxs))} = {k}; {dd} = {si};")
    tr.emit(f"}} else {{ {dd} = {ni}; {tr.lv(Loc(it.f('cur'), itl.idxs))} = 0; }}")
    if "keys" in s.node.names:
        tr.store(Loc(n.variants[si][1].fields[0], d.idxs), VRef(s.node.f("keys").elem, s.idxs + [tr.lv(Loc(it.f('cur'), itl.idxs))]))
    else:
        tr.store(Loc(n.variants[si][1].fields[0], d.idxs), VRef(it.f("cur"), itl.idxs))


@model("<AHashSet as Default>::default", "<HashSet as Default>::default", "AHashSet::new", "HashSet::new",
       "AHashSet::default", doc="empty set")
def m_set_default(tr, c):
    d = c.dest()
    if d.node.kind == "struct" and d.node.tag == "Set":
        p = d.node.f("present")
        for k in range(p.cap):
            tr.emit(f"{p.elem.name}{sub(d.idxs + [str(k)])} = 0;")
        return
    alt = tr.models.lookup("default:" + str(getattr(d.node, "tag", d.node.kind)))
    if alt:
        return alt(tr, c)
    raise TranslateError(f"default() into {d.node.name}")


# ---------------------------------------------------------------------------------------------
# Option / Result / cmp helpers
# ---------------------------------------------------------------------------------------------

@model(rx(r"<(Option|Result|TxVersion|TransactionStatus|&?[A-Za-z]+) as PartialEq>::(eq|ne)"),
       doc="derive(PartialEq) structural equality on model layouts")
def m_partial_eq(tr, c):
    a = tr.deref(c.args[0])
    b = tr.deref(c.args[1])
    e = eq_expr(tr, a, b)
    if c.key.endswith("::ne"):
        e = f"(!{e})"
    c.ret(VScalar(e, "_Bool"))


def _opt_loc(tr, v) -> Loc:
    if isinstance(v, VLoc) and v.loc.node.kind == "enum":
        return v.loc
    loc = tr.deref(v)
    while loc.node.kind == "ref":
        loc = tr.deref(VLoc(loc))
    return loc


@model("Option::is_none", "Option::is_some", "Result::is_ok", "Result::is_err")
def m_opt_is(tr, c):
    o = _opt_loc(tr, c.args[0])
    which = {"is_none": "None", "is_some": "Some", "is_ok": "Ok", "is_err": "Err"}[c.key.split("::")[-1]]
    c.ret(VScalar(f"({tr.lv(Loc(o.node.discr, o.idxs))} == {o.node.vindex(which)})", "_Bool"))


def panic(tr: Translator, msg: str):
    msg = re.sub(r'[^A-Za-z0-9 _:.,+*/<>=-]', "", msg)[:90]
    for r in tr.panic_ok:
        if r.search(msg):
            tr.emit(f"__CPROVER_assume(0); /* expected panic: {msg} */")
            return
    tr.emit(f'__CPROVER_assert(0, "RUST-PANIC {msg}"); __CPROVER_assume(0);')


@model("Option::unwrap", "Option::expect", "Result::unwrap", "Result::expect",
       doc="panics (assertion RUST-PANIC) unless Some/Ok; returns the payload")
def m_unwrap(tr, c):
    o = _opt_loc(tr, c.args[0])
    good = "Some" if o.node.ty is not None and o.node.ty.name == "Option" or any(v == "Some" for v, _ in o.node.variants) else "Ok"
    gi = o.node.vindex(good)
    dd = tr.lv(Loc(o.node.discr, o.idxs))
    msg = ""
    if len(c.args) > 1 and isinstance(c.args[1], VConst):
        msg = c.args[1].text
    tr.emit(f"if ({dd} != {gi}) {{")
    panic(tr, f"{c.key} failed {msg}")
    tr.emit("}")
    payload = o.node.variants[gi][1]
    if payload.fields:
        c.ret(VLoc(Loc(payload.fields[0], o.idxs)))


@model("Option::unwrap_or", "Result::unwrap_or")
def m_unwrap_or(tr, c):
    o = _opt_loc(tr, c.args[0])
    gi = o.node.vindex("Some" if any(v == "Some" for v, _ in o.node.variants) else "Ok")
    dd = tr.lv(Loc(o.node.discr, o.idxs))
    d = c.dest(like=c.args[1])
    tr.emit(f"if ({dd} == {gi}) {{")
    tr.copy(d, Loc(o.node.variants[gi][1].fields[0], o.idxs))
    tr.emit("} else {")
    tr.store(d, c.args[1])
    tr.emit("}")


@model("Option::take", doc="mem::replace(opt, None)")
def m_opt_take(tr, c):
    o = _opt_loc(tr, c.args[0])
    d = c.dest()
    tr.copy(d, o)
    tr.emit(f"{tr.lv(Loc(o.node.discr, o.idxs))} = {o.node.vindex('None')};")


@model("Option::as_ref", "Option::as_mut", "Result::as_ref", "Result::as_mut",
       doc="&Option<T> -> Option<&T> (same for Result)")
def m_opt_as_ref(tr, c):
    o = _opt_loc(tr, c.args[0])
    d = c.dest()
    n = d.node
    tr.emit(f"{tr.lv(Loc(n.discr, d.idxs))} = {tr.lv(Loc(o.node.discr, o.idxs))};")
    for (vn, vs), (_wn, ws) in zip(n.variants, o.node.variants):
        if vs.fields:
            tr.store(Loc(vs.fields[0], d.idxs), VRef(ws.fields[0], o.idxs))


@model("Option::map_or", doc="Option::map_or(default, f)")
def m_opt_map_or(tr, c):
    o = _opt_loc(tr, c.args[0])
    si = o.node.vindex("Some")
    dd = tr.lv(Loc(o.node.discr, o.idxs))
    d = c.dest(like=c.args[1])
    tr.emit(f"if ({dd} == {si}) {{")
    tr.call_closure(c.inst, c.args[2], [VLoc(Loc(o.node.variants[si][1].fields[0], o.idxs))], d)
    tr.emit("} else {")
    tr.store(d, c.args[1])
    tr.emit("}")


@model("Option::map", doc="Option::map(f)")
def m_opt_map(tr, c):
    o = _opt_loc(tr, c.args[0])
    si, ni = o.node.vindex("Some"), o.node.vindex("None")
    dd = tr.lv(Loc(o.node.discr, o.idxs))
    d = c.dest()
    n = d.node
    tr.emit(f"if ({dd} == {si}) {{")
    tr.emit(f"{tr.lv(Loc(n.discr, d.idxs))} = {n.vindex('Some')};")
    tr.call_closure(c.inst, c.args[1], [VLoc(Loc(o.node.variants[si][1].fields[0], o.idxs))],
                    Loc(n.variants[n.vindex('Some')][1].fields[0], d.idxs))
    tr.emit("} else {")
    tr.emit(f"{tr.lv(Loc(n.discr, d.idxs))} = {n.vindex('None')};")
    tr.emit("}")


@model("Option::filter", doc="Option::filter(pred)")
def m_opt_filter(tr, c):
    o = _opt_loc(tr, c.args[0])
    si, ni = o.node.vindex("Some"), o.node.vindex("None")
    dd = tr.lv(Loc(o.node.discr, o.idxs))
    d = c.dest()
    tr.copy(d, o)
    keep = tr.tmp("_Bool", "keep")
    tmpn = tr.alloc(parse_type("bool"), f"keepn{tr.tmpn}", [], tr.cur.storage)
    tr.emit(f"if ({dd} == {si}) {{")
    tr.call_closure(c.inst, c.args[1], [VRef(o.node.variants[si][1].fields[0], o.idxs)], Loc(tmpn, []))
    tr.emit(f"if (!{tmpn.name}) {tr.lv(Loc(d.node.discr, d.idxs))} = {ni};")
    tr.emit("}")


@model("bool::then_some", doc="cond.then_some(v)")
def m_then_some(tr, c):
    b = tr.as_scalar(c.args[0])
    d = c.dest()
    n = d.node
    si, ni = n.vindex("Some"), n.vindex("None")
    tr.emit(f"{tr.lv(Loc(n.discr, d.idxs))} = ({b.expr}) ? {si} : {ni};")
    tr.store(Loc(n.variants[si][1].fields[0], d.idxs), c.args[1])
    v = c.args[1]
    if isinstance(v, VLoc) and tr.has_drop(v.loc.node):
        # the value is consumed: when the condition is false it is dropped here (e.g. a lock guard is released)
        tr.emit(f"if (!({b.expr})) {{")
        tr.drop(v.loc)
        tr.emit("}")


@model("bool::then", doc="cond.then(f)")
def m_then(tr, c):
    b = tr.as_scalar(c.args[0])
    d = c.dest()
    n = d.node
    si, ni = n.vindex("Some"), n.vindex("None")
    tr.emit(f"if ({b.expr}) {{ {tr.lv(Loc(n.discr, d.idxs))} = {si};")
    tr.call_closure(c.inst, c.args[1], [], Loc(n.variants[si][1].fields[0], d.idxs))
    tr.emit(f"}} else {{ {tr.lv(Loc(n.discr, d.idxs))} = {ni}; }}")


@model("Result::map_err", doc="Result::map_err(f)")
def m_map_err(tr, c):
    o = _opt_loc(tr, c.args[0])
    oki, erri = o.node.vindex("Ok"), o.node.vindex("Err")
    dd = tr.lv(Loc(o.node.discr, o.idxs))
    d = c.dest()
    n = d.node
    tr.emit(f"if ({dd} == {oki}) {{ {tr.lv(Loc(n.discr, d.idxs))} = {n.vindex('Ok')};")
    if o.node.variants[oki][1].fields:
        tr.copy(Loc(n.variants[n.vindex('Ok')][1].fields[0], d.idxs), Loc(o.node.variants[oki][1].fields[0], o.idxs))
    tr.emit(f"}} else {{ {tr.lv(Loc(n.discr, d.idxs))} = {n.vindex('Err')};")
    tr.call_closure(c.inst, c.args[1], [VLoc(Loc(o.node.variants[erri][1].fields[0], o.idxs))],
                    Loc(n.variants[n.vindex('Err')][1].fields[0], d.idxs))
    tr.emit("}")


@model("Option::map_or_else")
def m_opt_map_or_else(tr, c):
    o = _opt_loc(tr, c.args[0])
    si = o.node.vindex("Some")
    dd = tr.lv(Loc(o.node.discr, o.idxs))
    d = c.dest()
    tr.emit(f"if ({dd} == {si}) {{")
    tr.call_closure(c.inst, c.args[2], [VLoc(Loc(o.node.variants[si][1].fields[0], o.idxs))], d)
    tr.emit("} else {")
    tr.call_closure(c.inst, c.args[1], [], d)
    tr.emit("}")


@model(rx(r"std::cmp::(max|min)"), "max", "min", rx(r"<(usize|u64|u8|u32|isize) as Ord>::(max|min)"), rx(r"core::cmp::Ord::(max|min)"))
def m_minmax(tr, c):
    a, b = tr.as_scalar(c.args[0]), tr.as_scalar(c.args[1])
    op = ">" if c.key.endswith("max") else "<"
    c.ret(VScalar(f"(({a.expr}) {op} ({b.expr}) ? ({a.expr}) : ({b.expr}))", a.ctype))


@model(rx(r"(core::num::<impl )?(usize|u64|u8|u32|u128|u16)>?::saturating_sub"))
def m_sat_sub(tr, c):
    a, b = tr.as_scalar(c.args[0]), tr.as_scalar(c.args[1])
    c.ret(VScalar(f"(({a.expr}) > ({b.expr}) ? ({a.expr}) - ({b.expr}) : 0)", a.ctype))


@model(rx(r"(core::num::<impl )?(usize|u64|u8|u32|u128|u16)>?::saturating_add"))
def m_sat_add(tr, c):
    a, b = tr.as_scalar(c.args[0]), tr.as_scalar(c.args[1])
    t = tr.tmp(a.ctype, "sa")
    tr.emit(f"{t} = ({a.ctype})(({a.expr}) + ({b.expr}));")
    c.ret(VScalar(f"(({t}) < ({a.expr}) ? ({a.ctype})~({a.ctype})0 : {t})", a.ctype))


@model(rx(r"(core::num::<impl )?(usize|u64|u8|u32|u128|u16)>?::checked_add"))
def m_checked_add(tr, c):
    a, b = tr.as_scalar(c.args[0]), tr.as_scalar(c.args[1])
    t = tr.tmp(a.ctype, "ca")
    tr.emit(f"{t} = ({a.ctype})(({a.expr}) + ({b.expr}));")
    ret_option_scalar(c, f"!({t} < ({a.expr}))", t)


@model(rx(r"(core::num::<impl )?(usize|u64|u8|u32|u128|u16)>?::checked_sub"))
def m_checked_sub(tr, c):
    a, b = tr.as_scalar(c.args[0]), tr.as_scalar(c.args[1])
    ret_option_scalar(c, f"({a.expr}) >= ({b.expr})", f"(({a.ctype})(({a.expr}) - ({b.expr})))")


@model(rx(r"<(usize|u64|u8|bool|u32) as Clone>::clone"), doc="Copy types")
def m_clone_scalar(tr, c):
    c.ret(VLoc(tr.deref(c.args[0])))


@model(rx(r"<[A-Za-z&]+ as Clone>::clone"), doc="derive(Clone): structural copy of the model layout")
def m_clone_struct(tr, c):
    src = tr.deref(c.args[0])
    d = c.dest(like=VLoc(src))
    tr.copy(d, src)


@model("std::mem::take", "take", doc="mem::take: move out and leave Default (empty container / zero)")
def m_mem_take(tr, c):
    src = tr.deref(c.args[0])
    d = c.dest(like=VLoc(src))
    tr.copy(d, src)
    zero_default(tr, src)


@model("std::mem::replace", "replace", doc="mem::replace")
def m_mem_replace(tr, c):
    src = tr.deref(c.args[0])
    d = c.dest(like=VLoc(src))
    tr.copy(d, src)
    tr.store(src, c.args[1])


@model("std::mem::drop", "drop", doc="drop(value)")
def m_mem_drop(tr, c):
    v = c.args[0]
    if isinstance(v, VLoc):
        tr.drop(v.loc)


def zero_default(tr: Translator, loc: Loc):
    """write Default::default() for containers / scalars at loc"""
    n = loc.node
    if n.kind == "scalar":
        tr.emit(f"{tr.lv(loc)} = 0;")
    elif n.kind == "struct":
        if n.ty is not None and getattr(n.ty, "kind", "") == "path" and n.ty.name == "AccountInfo" and "code_hash" in n.names:
            import revm_models, itermodels
            return revm_models.m_info_default(tr, itermodels.ICtx(tr, None, "<AccountInfo as Default>::default", [], loc))
        if n.tag in ("KMap", "BTree"):
            p = n.f("present")
            for k in range(p.cap):
                tr.emit(f"{p.elem.name}{sub(loc.idxs + [str(k)])} = 0;")
            return
        if n.tag == "Set":
            p = n.f("present")
            for k in range(p.cap):
                tr.emit(f"{p.elem.name}{sub(loc.idxs + [str(k)])} = 0;")
            return
        if n.extra.get("default"):
            return n.extra["default"](tr, loc)
        for f in n.fields:
            zero_default(tr, Loc(f, loc.idxs))
    elif n.kind == "arr":
        if n.len is not None:
            tr.emit(f"{tr.lv(Loc(n.len, loc.idxs))} = 0;")
        else:
            for k in range(n.cap):
                zero_default(tr, Loc(n.elem, loc.idxs + [str(k)]))
    elif n.kind == "enum":
        names = [v for v, _ in n.variants]
        if "None" in names:
            tr.emit(f"{tr.lv(Loc(n.discr, loc.idxs))} = {names.index('None')};")
        else:
            tr.emit(f"{tr.lv(Loc(n.discr, loc.idxs))} = 0;")
    elif n.kind == "unit":
        pass
    else:
        raise TranslateError(f"default for {n.kind} {n.name}")


@model(rx(r"<.* as Default>::default"), doc="Default::default(): zero / empty / None / first variant")
def m_default(tr, c):
    d = c.dest()
    if d is not None:
        zero_default(tr, d)


# ---------------------------------------------------------------------------------------------
# panics, fmt, misc
# ---------------------------------------------------------------------------------------------

@model(rx(r"(core|std)::panicking::(panic|panic_fmt|panic_explicit|assert_failed|panic_display|panic_nounwind|unreachable_display)"),
       rx(r"(core|std)::panicking::panic_const::.*"), rx(r"std::rt::(begin_panic|panic_fmt)"),
       rx(r"core::(option|result)::(expect_failed|unwrap_failed)"), "std::process::abort", "panic_fmt", "panic",
       "assert_failed", "begin_panic", "expect_failed", "unwrap_failed", "panic_explicit", "panic_display",
       rx(r"core::slice::index::.*_fail"), "core::panicking::panic_bounds_check", "std::panic::resume_unwind", "resume_unwind",
       doc="explicit Rust panic: assertion RUST-PANIC (a reachable panic fails the check unless whitelisted)")
def m_panic(tr, c):
    msg = c.key
    for a in c.term.args:
        if a.kind == "const" and a.const.startswith('"'):
            msg += " " + a.const
    # include the source-level message when the caller built Arguments from a constant string
    panic(tr, f"{msg} in {tr.stack[-1] if tr.stack else ''}")


@model(rx(r"(core::fmt::rt::<impl )?Arguments(>)?::(new_const|new_v1|new_v1_formatted|from_str|new)"), rx(r"core::fmt::rt::Argument::.*"),
       rx(r"Argument::.*"), rx(r"Arguments::.*"), rx(r"core::fmt::rt::<impl Arguments>::.*"),
       rx(r"std::fmt::Arguments::.*"), rx(r"core::fmt::rt::.*"), doc="formatting machinery: no effect")
def m_fmt(tr, c):
    pass


@model("std::thread::yield_now", "yield_now", doc="yield: no effect on state (a pre-emption point exists at every visible operation anyway)")
def m_yield(tr, c):
    h = tr.cfg.get("yield_hook")
    if h:
        h(tr, c)


@model(rx(r"std::time::Instant::(now|elapsed)"), rx(r"<Duration as PartialOrd>::(gt|lt|ge|le)"), rx(r"Duration::.*"),
       rx(r"Instant::.*"), doc="time: elapsed comparisons return a nondeterministic boolean")
def m_time(tr, c):
    d = c.dest()
    if d is not None and d.node.kind == "scalar":
        tr.emit(f"{tr.lv(d)} = nondet_bool();")


# ---------------------------------------------------------------------------------------------
# threads: park / unpark / OnceLock<Thread>
# ---------------------------------------------------------------------------------------------

@model("std::thread::current", "current", doc="handle of the calling harness thread (its numeric id)")
def m_thread_current(tr, c):
    d = c.dest()
    tr.emit(f"{tr.lv(Loc(d.node.f('tid'), d.idxs))} = {tr.cur.tid};")


@model("OnceLock::set", doc="OnceLock::set: atomic; Ok(()) iff it was empty, else Err(value)")
def m_oncelock_set(tr, c):
    o = self_loc(tr, c.args[0], "OnceLock")
    d = c.dest()
    n = d.node
    st = tr.lv(Loc(o.node.f("set"), o.idxs))
    was = tr.tmp("_Bool", "was")
    atomic_begin(tr)
    tr.emit(f"{was} = {st};")
    tr.emit(f"if (!{was}) {{")
    tr.store(Loc(o.node.f("val"), o.idxs), c.args[1])
    tr.emit(f"{st} = 1; }}")
    visible(tr)
    atomic_end(tr)
    tr.emit(f"{tr.lv(Loc(n.discr, d.idxs))} = {was} ? {n.vindex('Err')} : {n.vindex('Ok')};")
    ef = n.variants[n.vindex('Err')][1].fields
    if ef and ef[0].kind != "unit":
        tr.store(Loc(ef[0], d.idxs), c.args[1])


@model("OnceLock::get", doc="OnceLock::get: atomic read; Some(&value) iff initialised")
def m_oncelock_get(tr, c):
    o = self_loc(tr, c.args[0], "OnceLock")
    d = c.dest()
    n = d.node
    st = tr.lv(Loc(o.node.f("set"), o.idxs))
    atomic_begin(tr)
    tr.emit(f"{tr.lv(Loc(n.discr, d.idxs))} = {st} ? {n.vindex('Some')} : {n.vindex('None')};")
    atomic_end(tr)
    tr.store(Loc(n.variants[n.vindex('Some')][1].fields[0], d.idxs), VRef(o.node.f("val"), o.idxs))


@model("OnceLock::get_or_init", doc="OnceLock::get_or_init: atomic test; the first caller stores the closure's value")
def m_oncelock_get_or_init(tr, c):
    o = self_loc(tr, c.args[0], "OnceLock")
    st = tr.lv(Loc(o.node.f("set"), o.idxs))
    tmpv = tr.clone(o.node.f("val"), f"goi{tr.tmpn}_{tr.uid}", [], tr.cur.storage)
    tr.tmpn += 1
    tr.call_closure(c.inst, c.args[1], [], Loc(tmpv, []))
    atomic_begin(tr)
    tr.emit(f"if (!{st}) {{")
    tr.copy(Loc(o.node.f("val"), o.idxs), Loc(tmpv, []))
    tr.emit(f"{st} = 1; }}")
    visible(tr)
    atomic_end(tr)
    c.ret(VRef(o.node.f("val"), o.idxs))


@model("Thread::unpark", doc="std parker: sets the one-shot token of the target thread (atomic)")
def m_unpark(tr, c):
    t = self_loc(tr, c.args[0], "Thread")
    tid = tr.lv(Loc(t.node.f("tid"), t.idxs))
    atomic_begin(tr)
    tr.emit(f"g_park_token[{tid}] = 1;")
    visible(tr)
    atomic_end(tr)


@model("std::thread::park_timeout", "std::thread::park", "park_timeout", "park",
       doc="park WITHOUT timeout: consumes the token if present; otherwise blocks until a token arrives. If every "
           "thread that could still unpark has finished and no token is present the harness assertion 'lost wake-up' fails")
def m_park(tr, c):
    tid = tr.cur.tid
    h = tr.cfg.get("park_hook")
    if h:
        return h(tr, c)
    atomic_begin(tr)
    done = tr.cfg.get("notifiers_done_expr", "0")
    # the park completes when a token is present, or -- so that a lost wake-up is a reachable assertion failure rather
    # than a silently pruned blocked path -- once every thread that could still unpark this one has finished
    tr.emit(f"__CPROVER_assume(g_park_token[{tid}] || ({done}));")
    tr.emit(f'__CPROVER_assert(g_park_token[{tid}], "LOST-WAKEUP: parked with no token and no notifier left (only the timeout would wake this thread)");')
    tr.emit(f"g_park_token[{tid}] = 0; g_parks++;")
    atomic_end(tr)


def _untuple(tr, v):
    if isinstance(v, VAgg) and v.variant is None:
        return list(v.fields)
    if isinstance(v, VLoc) and v.loc.node.kind == "struct":
        return [VLoc(Loc(f, v.loc.idxs)) for f in v.loc.node.fields]
    if isinstance(v, (VUnit,)) or (isinstance(v, VLoc) and v.loc.node.kind == "unit"):
        return []
    if isinstance(v, VConst):
        return []
    raise TranslateError(f"closure argument tuple expected, got {v}")


@model(rx(r"<.* as (FnMut|FnOnce|Fn)>::(call_mut|call_once|call)"), doc="closure call: inlines the closure body (MIR) or the harness closure")
def m_fn_call(tr, c):
    d = c.dest()
    tr.call_closure(c.inst, c.args[0], _untuple(tr, c.args[1]) if len(c.args) > 1 else [], d)


def t_controlflow(tr, ty, name, dims, storage, g):
    cont = [ty.args[1]] if len(ty.args) > 1 else []          # ControlFlow<B, C = ()>
    return tr.make_enum(ty, name, dims, storage, [("Continue", cont), ("Break", [ty.args[0]])], g)


@model("<Result as Try>::branch", doc="`?` on Result: Continue(v) for Ok(v), Break(Err(e)) for Err(e)")
def m_try_branch(tr, c):
    r = _opt_loc(tr, c.args[0])
    d = c.dest()
    n = d.node
    oki, erri = r.node.vindex("Ok"), r.node.vindex("Err")
    ci, bi = n.vindex("Continue"), n.vindex("Break")
    tr.emit(f"if ({tr.lv(Loc(r.node.discr, r.idxs))} == {oki}) {{ {tr.lv(Loc(n.discr, d.idxs))} = {ci};")
    if r.node.variants[oki][1].fields and n.variants[ci][1].fields:
        tr.copy(Loc(n.variants[ci][1].fields[0], d.idxs), Loc(r.node.variants[oki][1].fields[0], r.idxs))
    tr.emit(f"}} else {{ {tr.lv(Loc(n.discr, d.idxs))} = {bi};")
    br = n.variants[bi][1].fields[0]          # Result<Infallible, E>
    tr.emit(f"{tr.lv(Loc(br.discr, d.idxs))} = {br.vindex('Err')};")
    tr.copy(Loc(br.variants[br.vindex('Err')][1].fields[0], d.idxs), Loc(r.node.variants[erri][1].fields[0], r.idxs))
    tr.emit("}")


@model("<Result as FromResidual>::from_residual", doc="`?`: Err(e) -> Err(From::from(e)) with identity conversion")
def m_from_residual(tr, c):
    r = _opt_loc(tr, c.args[0])
    d = c.dest()
    n = d.node
    tr.emit(f"{tr.lv(Loc(n.discr, d.idxs))} = {n.vindex('Err')};")
    de = n.variants[n.vindex('Err')][1].fields[0]
    se = r.node.variants[r.node.vindex('Err')][1].fields[0]
    if de.kind == "enum" and se.kind != "enum" and "Database" in [v[0] for v in de.variants]:
        # impl<DBError> From<DBError> for EVMError<DBError>: EVMError::Database(e)
        di = de.vindex("Database")
        tr.emit(f"{tr.lv(Loc(de.discr, d.idxs))} = {di};")
        tr.copy(Loc(de.variants[di][1].fields[0], d.idxs), Loc(se, r.idxs))
        return
    tr.copy(Loc(de, d.idxs), Loc(se, r.idxs))


@model("<Option as Try>::branch", doc="`?` on Option")
def m_try_branch_opt(tr, c):
    r = _opt_loc(tr, c.args[0])
    d = c.dest()
    n = d.node
    si = r.node.vindex("Some")
    ci, bi = n.vindex("Continue"), n.vindex("Break")
    tr.emit(f"if ({tr.lv(Loc(r.node.discr, r.idxs))} == {si}) {{ {tr.lv(Loc(n.discr, d.idxs))} = {ci};")
    tr.copy(Loc(n.variants[ci][1].fields[0], d.idxs), Loc(r.node.variants[si][1].fields[0], r.idxs))
    tr.emit(f"}} else {{ {tr.lv(Loc(n.discr, d.idxs))} = {bi}; }}")


@model("<Option as FromResidual>::from_residual")
def m_from_residual_opt(tr, c):
    d = c.dest()
    tr.emit(f"{tr.lv(Loc(d.node.discr, d.idxs))} = {d.node.vindex('None')};")


def install(tr: Translator):
    tr.models = REG
    install_types(tr)
    import models2
    models2.install(tr)
    import mvmodels
    mvmodels.install(tr)
    import itermodels
    itermodels.install(tr)
    import revm_models
    revm_models.install(tr)
    import models3
    models3.install(tr)
    models3.install3(tr)
    import models4
    models4.install4(tr)
