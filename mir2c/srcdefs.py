"""Struct / enum definitions and impl headers parsed from Rust sources (field order, names, variant order).

MIR refers to fields by index and to impl blocks by source position; this module recovers names.
"""
import os
import re
from dataclasses import dataclass, field
from typing import Dict, List, Tuple, Optional
from mirparse import split_top, match_paren, find_top


@dataclass
class Def:
    name: str
    kind: str                       # 'struct' | 'enum'
    generics: List[str]
    fields: List[Tuple[str, str]] = field(default_factory=list)        # struct: (name, type)
    variants: List[Tuple[str, List[Tuple[str, str]], Optional[int]]] = field(default_factory=list)
    file: str = ""


def strip_comments(src: str) -> str:
    """Remove // and /* */ comments, keeping line structure (newlines preserved)."""
    out, i, n = [], 0, len(src)
    while i < n:
        c = src[i]
        if c == '"':
            j = i + 1
            while j < n and src[j] != '"':
                if src[j] == "\\":
                    j += 1
                j += 1
            out.append(src[i:j + 1])
            i = j + 1
            continue
        if src.startswith("//", i):
            j = src.find("\n", i)
            if j < 0:
                j = n
            i = j
            continue
        if src.startswith("/*", i):
            j = src.find("*/", i + 2)
            seg = src[i:j + 2]
            out.append("\n" * seg.count("\n"))
            i = j + 2
            continue
        if c == "'" and i + 2 < n and src[i + 2] == "'":
            out.append(src[i:i + 3])
            i += 3
            continue
        out.append(c)
        i += 1
    return "".join(out)


def _strip_attrs(s: str) -> str:
    s = s.strip()
    while s.startswith("#["):
        e = match_paren(s, 1)
        s = s[e + 1:].strip()
    return s


def _strip_vis(s: str) -> str:
    s = s.strip()
    m = re.match(r"pub(\s*\([^)]*\))?\s+", s)
    if m:
        s = s[m.end():]
    return s


def _parse_generics(g: str) -> List[str]:
    out = []
    for p in split_top(g):
        p = p.strip()
        if not p or p.startswith("'"):
            continue
        p = p.split(":")[0].split("=")[0].strip()      # drop bounds and defaults (`ENTRY = JournalEntry`)
        if p.startswith("const "):
            p = p[6:].strip()
        out.append(p)
    return out


def _parse_fields(body: str) -> List[Tuple[str, str]]:
    res = []
    for p in split_top(body):
        p = _strip_vis(_strip_attrs(p))
        if not p:
            continue
        k = find_top(p, ":")
        res.append((p[:k].strip(), p[k + 1:].strip()))
    return res


def _parse_tuple_fields(body: str) -> List[Tuple[str, str]]:
    res = []
    for i, p in enumerate([x for x in split_top(body) if x.strip()]):
        p = _strip_vis(_strip_attrs(p))
        res.append((str(i), p))
    return res


_ITEM_RE = re.compile(r"\b(struct|enum)\s+([A-Za-z_][A-Za-z0-9_]*)")


def parse_defs(src: str, file: str = "") -> Dict[str, Def]:
    src = strip_comments(src)
    defs: Dict[str, Def] = {}
    for m in _ITEM_RE.finditer(src):
        kind, name = m.group(1), m.group(2)
        i = m.end()
        generics: List[str] = []
        rest = src[i:]
        r = rest.lstrip()
        off = i + (len(rest) - len(r))
        if r.startswith("<"):
            depth, j = 0, 0
            while j < len(r):
                if r[j] == "<":
                    depth += 1
                elif r[j] == ">" and r[j - 1] != "-":
                    depth -= 1
                    if depth == 0:
                        break
                j += 1
            generics = _parse_generics(r[1:j])
            off += j + 1
        # skip where clause up to '{' / '(' / ';'
        j = off
        n = len(src)
        while j < n and src[j] not in "{(;":
            j += 1
        if j >= n:
            continue
        if kind == "struct":
            if src[j] == "{":
                e = match_paren(src, j)
                defs[name] = Def(name, "struct", generics, _parse_fields(src[j + 1:e]), file=file)
            elif src[j] == "(":
                e = match_paren(src, j)
                defs[name] = Def(name, "struct", generics, _parse_tuple_fields(src[j + 1:e]), file=file)
            else:
                defs[name] = Def(name, "struct", generics, [], file=file)
        else:
            if src[j] != "{":
                continue
            e = match_paren(src, j)
            variants = []
            for p in split_top(src[j + 1:e]):
                p = _strip_attrs(p)
                if not p:
                    continue
                vm = re.match(r"([A-Za-z_][A-Za-z0-9_]*)\s*(.*)$", p, re.S)
                vname, vrest = vm.group(1), vm.group(2).strip()
                disc = None
                if vrest.startswith("{"):
                    ee = match_paren(vrest, 0)
                    vf = _parse_fields(vrest[1:ee])
                elif vrest.startswith("("):
                    ee = match_paren(vrest, 0)
                    vf = _parse_tuple_fields(vrest[1:ee])
                    vrest = vrest[ee + 1:].strip()
                else:
                    vf = []
                dm = re.match(r"=\s*(-?\d+)", vrest)
                if dm:
                    disc = int(dm.group(1))
                variants.append((vname, vf, disc))
            defs[name] = Def(name, "enum", generics, variants=variants, file=file)
    return defs


_IMPL_RE = re.compile(r"^\s*(?:unsafe\s+)?impl\b(.*)$", re.S)


def impl_header(src_lines: List[str], line: int) -> Tuple[str, Optional[str]]:
    """Header of the impl starting at 1-based `line`: returns (self type base name, trait base name | None)."""
    txt = ""
    i = line - 1
    while i < len(src_lines):
        txt += " " + src_lines[i]
        if "{" in src_lines[i]:
            break
        i += 1
    txt = strip_comments(txt)
    txt = txt[:txt.index("{")] if "{" in txt else txt
    m = _IMPL_RE.match(txt)
    if not m:
        raise ValueError(f"no impl at line {line}: {txt!r}")
    r = m.group(1).strip()
    if r.startswith("<"):
        depth, j = 0, 0
        while j < len(r):
            if r[j] == "<":
                depth += 1
            elif r[j] == ">" and r[j - 1] != "-":
                depth -= 1
                if depth == 0:
                    break
            j += 1
        r = r[j + 1:].strip()
    k = find_top(r, " where ")
    if k >= 0:
        r = r[:k]
    r = r.strip()
    k = find_top(r, " for ")
    from rtypes import _base_name
    if k >= 0:
        return _base_name(r[k + 5:].strip()), _base_name(r[:k].strip())
    return _base_name(r), None


class Sources:
    def __init__(self, root: str, extra_roots: List[str] = ()):
        self.root = root
        self.defs: Dict[str, Def] = {}
        self.files: Dict[str, List[str]] = {}
        self.aliases: Dict[str, str] = {}
        for r in [root] + list(extra_roots):
            self._load(r, primary=(r == root))

    def _load(self, root: str, primary: bool):
        for dp, _dn, fns in os.walk(root):
            if "/target" in dp or "/.git" in dp:
                continue
            for fn in fns:
                if not fn.endswith(".rs"):
                    continue
                p = os.path.join(dp, fn)
                try:
                    txt = open(p).read()
                except Exception:
                    continue
                rel = os.path.relpath(p, root)
                if primary:
                    self.files[rel] = txt.split("\n")
                try:
                    d = parse_defs(txt, rel)
                except Exception:
                    continue
                for k, v in d.items():
                    if k not in self.defs or primary:
                        self.defs[k] = v
                if primary:
                    clean = strip_comments(txt)
                    for m in re.finditer(r"\btype\s+([A-Za-z_][A-Za-z0-9_]*)\s*=\s*([^;]+);", clean):
                        self.aliases.setdefault(m.group(1), m.group(2).strip())
                    for m in re.finditer(r"([A-Za-z_][A-Za-z0-9_:]*)\s+as\s+([A-Za-z_][A-Za-z0-9_]*)\s*[,;}]", clean):
                        src_name = m.group(1).split("::")[-1]
                        if src_name != m.group(2) and src_name[0].isupper():
                            self.aliases.setdefault(m.group(2), src_name)

    def impl_at(self, file: str, line: int) -> Tuple[str, Optional[str]]:
        if file not in self.files and os.path.isabs(file) and os.path.exists(file):
            self.files[file] = open(file).read().split("\n")      # a dependency's source (impl positions of an extra MIR dump)
        return impl_header(self.files[file], line)

    def fn_generics(self, file: str, line: int, fname: str) -> List[str]:
        """declared type-parameter names of `fn fname<...>` found after `line` in `file` (order as declared)"""
        if file not in self.files and os.path.isabs(file) and os.path.exists(file):
            self.files[file] = open(file).read().split("\n")
        lines = self.files.get(file)
        if not lines:
            return []
        txt = "\n".join(lines[max(0, line - 1):])
        m = re.search(r"\bfn\s+" + re.escape(fname) + r"\s*<", txt)
        if not m:
            return []
        i = m.end() - 1
        j = match_paren(txt, i) if txt[i] == "(" else None
        depth, k = 0, i
        while k < len(txt):
            if txt[k] == "<":
                depth += 1
            elif txt[k] == ">" and txt[k - 1] != "-":
                depth -= 1
                if depth == 0:
                    break
            k += 1
        inner = txt[i + 1:k]
        out = []
        for part in split_top(inner, ","):
            part = part.strip()
            if not part or part.startswith("'") or part.startswith("const "):
                continue
            out.append(re.split(r"[:\s=]", part, 1)[0].strip())
        return out
