"""Model library, part 6: parking_lot::RwLock (exclusive-lock model), reversed iterators (Rev<Range>, Rev<vec::IntoIter>), fold."""
from translate import (Translator, Loc, VScalar, VRef, VLoc, VAgg, VUnit, VConst, TranslateError, StructN, ScalarN, UnitN, ArrN, RefN, sub)
from models import model, rx, REG, self_loc, t_mutex, t_guard, _arr
from rtypes import parse_type

# RwLock<T>: same layout as Mutex<T>; read() and write() both take the lock exclusively.  Serialising readers loses no behaviour a
# reader can observe (readers do not write); the lock-order / blocking structure is that of the real code.
REG.add("RwLock::read", REG.lookup("Mutex::lock"), "parking_lot RwLock::read: modelled as an exclusive acquire (readers serialised)")
REG.add("RwLock::write", REG.lookup("Mutex::lock"), "parking_lot RwLock::write: exclusive acquire")
REG.add("RwLock::new", REG.lookup("Mutex::new"), "unlocked lock holding the value")
for g in ("RwLockReadGuard", "RwLockWriteGuard"):
    REG.add(f"<{g} as Deref>::deref", REG.lookup("<MutexGuard as Deref>::deref"), "guard -> protected data")
    REG.add(f"<{g} as DerefMut>::deref_mut", REG.lookup("<MutexGuard as Deref>::deref"), "guard -> protected data")


@model("[HistoryEntry]::get", rx(r"\[[A-Za-z]+\]::get(_mut)?"), doc="slice.get(i)")
def m_slice_get3(tr, c):
    return REG.lookup("core::slice::<impl [T]>::get")(tr, c)


def t_rev(tr, ty, name, dims, storage, g):
    s = StructN(ty, name, dims, storage, "Rev")
    s.fields.append(tr.alloc(ty.args[0], name + "_inner", dims, storage, g))
    s.names.append("inner")
    return s


@model("<Range as Iterator>::rev", "<IntoIter as Iterator>::rev", rx(r"<[A-Za-z]+ as Iterator>::rev"), doc="Iterator::rev: wraps the inner iterator")
def m_rev(tr, c):
    d = c.dest()
    v = c.args[0]
    tr.copy(Loc(d.node.f("inner"), d.idxs), v.loc if isinstance(v, VLoc) else tr.deref(v))


def rev_next(tr, inst, it: Loc, dest: Loc):
    """dest := it.next() for a Rev<...>"""
    inner = Loc(it.node.f("inner"), it.idxs)
    n = dest.node
    si, ni = n.vindex("Some"), n.vindex("None")
    tag = inner.node.tag
    if tag == "Range":
        st, en = tr.lv(Loc(inner.node.f("start"), inner.idxs)), tr.lv(Loc(inner.node.f("end"), inner.idxs))
        tr.emit(f"if ({st} < {en}) {{ {en} = {en} - 1; {tr.lv(Loc(n.discr, dest.idxs))} = {si}; {tr.lv(Loc(n.variants[si][1].fields[0], dest.idxs))} = {en}; }} "
                f"else {{ {tr.lv(Loc(n.discr, dest.idxs))} = {ni}; }}")
        return
    if tag == "VecIntoIter":
        a = tr.deref(VLoc(Loc(inner.node.f("vec"), inner.idxs)))
        pos = tr.lv(Loc(inner.node.f("pos"), inner.idxs))          # front cursor; the back cursor is the (shrinking) length
        ln = tr.lv(Loc(a.node.len, a.idxs))
        ix = tr.tmp("usize", "rix")
        tr.emit(f"if ({pos} < {ln}) {{ {ln} = {ln} - 1; {ix} = ({ln} < {a.node.cap}) ? {ln} : 0; {tr.lv(Loc(n.discr, dest.idxs))} = {si};")
        tr.copy(Loc(n.variants[si][1].fields[0], dest.idxs), Loc(a.node.elem, a.idxs + [ix]))
        tr.emit(f"}} else {{ {tr.lv(Loc(n.discr, dest.idxs))} = {ni}; }}")
        return
    raise TranslateError(f"Rev over {inner.node.name} (tag {tag}) is not modelled")


@model("<Rev as Iterator>::next", doc="next() of a reversed Range / vec::IntoIter")
def m_rev_next(tr, c):
    it = self_loc(tr, c.args[0])
    rev_next(tr, c.inst, it, c.dest())


@model("<Rev as Iterator>::fold", rx(r"<(Rev|IntoIter|Range) as Iterator>::fold"), doc="fold(init, f): unrolled to the container capacity")
def m_fold(tr, c):
    v = c.args[0]
    it = v.loc if isinstance(v, VLoc) else tr.deref(v)
    d = c.dest()
    tr.store(d, c.args[1])
    inner = it
    cap = 4
    n0 = it.node
    while n0.kind == "struct" and n0.tag in ("Rev", "Copied", "Map", "Filter"):
        n0 = n0.f("inner")
    if n0.kind == "struct" and n0.tag == "VecIntoIter":
        try:
            cap = tr.deref(VLoc(Loc(n0.f("vec"), it.idxs))).node.cap
        except TranslateError:
            cap = tr.cap
    # item storage: Option<Item> laid out like the element
    tr.tmpn += 1
    base = it.node.f("inner") if it.node.tag == "Rev" else it.node
    if base.tag == "VecIntoIter":
        a = tr.deref(VLoc(Loc(base.f("vec"), it.idxs)))
        item = tr.clone(a.node.elem, f"folditem{tr.tmpn}", [], tr.cur.storage)
    elif base.tag == "Range":
        item = tr.alloc(parse_type("usize"), f"folditem{tr.tmpn}", [], tr.cur.storage)
    else:
        raise TranslateError("fold over this iterator is not modelled")
    opt = tr.make_enum(None, f"foldopt{tr.tmpn}", [], tr.cur.storage, [("None", []), ("Some", [])])
    opt.variants[1][1].fields.append(item)
    opt.variants[1][1].names.append("0")
    done = tr.tmp("_Bool", "fdone")
    acc_tmp = tr.clone(d.node, f"foldacc{tr.tmpn}", [], tr.cur.storage)
    tr.emit(f"{done} = 0;")
    for _r in range(cap + 1):
        tr.emit(f"if (!{done}) {{")
        if it.node.tag == "Rev":
            rev_next(tr, c.inst, it, Loc(opt, []))
        else:
            import itermodels
            key = "<IntoIter as Iterator>::next" if it.node.tag == "VecIntoIter" else "<Range as Iterator>::next"
            REG.lookup(key)(tr, itermodels.ICtx(tr, c.inst, key, [VRef(it.node, it.idxs)], Loc(opt, [])))
        tr.emit(f"if ({tr.lv(Loc(opt.discr, []))} == 0) {{ {done} = 1; }} else {{")
        tr.copy(Loc(acc_tmp, []), d)
        tr.call_closure(c.inst, c.args[2], [VLoc(Loc(acc_tmp, [])), VLoc(Loc(item, []))], d)
        tr.emit("} }")
    tr.emit(f'__CPROVER_assert({done}, "BOUND fold within container capacity");')


def _drain_into_kmap(tr, c, it: Loc, dst: Loc, clear: bool):
    """insert every (k, v) yielded by the iterator at `it` into the keyed map at `dst`"""
    import itermodels, mvmodels
    p, vals, keys = dst.node.f("present"), dst.node.f("vals"), dst.node.f("keys")
    if clear:
        for k in range(p.cap):
            tr.emit(f"{p.elem.name}{sub(dst.idxs + [str(k)])} = 0;")
    tr.tmpn += 1
    item = StructN(None, f"citem{tr.tmpn}", [], tr.cur.storage)
    item.fields.append(tr.clone(keys.elem, f"citem{tr.tmpn}_0", [], tr.cur.storage)); item.names.append("0")
    item.fields.append(tr.clone(vals.elem, f"citem{tr.tmpn}_1", [], tr.cur.storage)); item.names.append("1")
    opt = tr.make_enum(None, f"copt{tr.tmpn}", [], tr.cur.storage, [("None", []), ("Some", [])])
    opt.variants[1][1].fields.append(item)
    opt.variants[1][1].names.append("0")
    done = tr.tmp("_Bool", "cdone")
    tr.emit(f"{done} = 0;")
    cap = itermodels._iter_cap(it.node)
    for _r in range(cap + 1):
        tr.emit(f"if (!{done}) {{")
        itermodels.emit_next(tr, c.inst, it, Loc(opt, []))
        tr.emit(f"if ({tr.lv(Loc(opt.discr, []))} == 0) {{ {done} = 1; }} else {{")
        kk = mvmodels.bound_key(tr, mvmodels.key_of(tr, VLoc(Loc(item.fields[0], []))), p.cap, "collect")
        tr.copy(Loc(keys.elem, dst.idxs + [kk]), Loc(item.fields[0], []))
        tr.copy(Loc(vals.elem, dst.idxs + [kk]), Loc(item.fields[1], []))
        tr.emit(f"{p.elem.name}{sub(dst.idxs + [kk])} = 1;")
        tr.emit("} }")
    tr.emit(f'__CPROVER_assert({done}, "BOUND collect within container capacity");')


@model("<Map as Iterator>::collect", doc="collect (k, v) pairs of a mapped keyed-map iteration into a keyed map")
def m_collect_map(tr, c):
    v = c.args[0]
    it = v.loc if isinstance(v, VLoc) else tr.deref(v)
    d = c.dest()
    if not (d.node.kind == "struct" and d.node.tag == "KMap"):
        raise TranslateError(f"collect into {d.node.name} is not modelled")
    _drain_into_kmap(tr, c, it, d, clear=True)


@model("<HashMap as Extend>::extend", "HashMap::extend", doc="extend a keyed map with (k, v) pairs of an iterator")
def m_map_extend(tr, c):
    m = self_loc(tr, c.args[0], "KMap")
    v = c.args[1]
    it = v.loc if isinstance(v, VLoc) else tr.deref(v)
    _drain_into_kmap(tr, c, it, m, clear=False)


def install(tr):
    tm = tr.type_models
    tm.setdefault("RwLock", t_mutex)
    tm.setdefault("RwLockReadGuard", t_guard)
    tm.setdefault("RwLockWriteGuard", t_guard)
    tm["Rev"] = t_rev


@model(rx(r"\[[A-Za-z0-9<>, ]+\]::(first|last)"), "core::slice::first", "core::slice::last", "Vec::first", "Vec::last", doc="slice.first()/last(): Some(&elem) iff non-empty")
def m_slice_first(tr, c):
    a = _arr(tr, c.args[0])
    ln = tr.lv(Loc(a.node.len, a.idxs))
    d = c.dest()
    n = d.node
    si, ni = n.vindex("Some"), n.vindex("None")
    tr.emit(f"{tr.lv(Loc(n.discr, d.idxs))} = ({ln} > 0) ? {si} : {ni};")
    if c.key.endswith("first"):
        tr.store(Loc(n.variants[si][1].fields[0], d.idxs), VRef(a.node.elem, a.idxs + ["0"]))
    else:
        ix = tr.tmp("usize", "lastix")
        tr.emit(f"{ix} = ({ln} > 0 && {ln} <= {a.node.cap}) ? {ln} - 1 : 0;")
        tr.store(Loc(n.variants[si][1].fields[0], d.idxs), VRef(a.node.elem, a.idxs + [ix]))


# ---- sub-slices, slice iterators, enumerate ------------------------------------------------------------------------------------
@model(rx(r"<Vec as Index<(std::ops::|core::ops::)?RangeFrom(<usize>)?>>::index"), "<Vec as Index<RangeFrom>>::index",
       rx(r"<\[[A-Za-z]+\] as Index<(std::ops::)?RangeFrom(<usize>)?>>::index"),
       doc="&v[start..]: view of the same storage with an element offset; panics (asserted) when start > len")
def m_vec_index_from(tr, c):
    r = tr.as_ref(c.args[0])
    a = _arr(tr, VRef(r.target, r.idxs))
    rg = c.args[1]
    if isinstance(rg, VAgg):
        st = tr.as_scalar(rg.fields[0]).expr
    else:
        rl = rg.loc if isinstance(rg, VLoc) else tr.deref(rg)
        st = tr.lv(Loc(rl.node.fields[0], rl.idxs))
    o = tr.tmp("usize", "soff")
    base = r.off if r.off is not None else "0"
    tr.emit(f"{o} = ({base}) + ({st});")
    tr.emit(f'__CPROVER_assert({o} <= {tr.lv(Loc(a.node.len, a.idxs))}, "RUST-PANIC slice start index out of range");')
    c.ret(VRef(a.node, a.idxs, off=o))


def t_sliceiter(tr, ty, name, dims, storage, g):
    s_ = StructN(ty, name, dims, storage, "SliceIter")
    s_.fields.append(RefN(None, name + "_vec", dims, storage)); s_.names.append("vec")
    s_.fields.append(ScalarN(None, name + "_pos", dims, storage, "usize")); s_.names.append("pos")
    return s_


@model(rx(r"(core::slice::<impl )?\[[A-Za-z0-9_]+\]>?::iter"), "Vec::iter", doc="slice.iter(): elements in order from the view's offset")
def m_slice_iter(tr, c):
    r = tr.as_ref(c.args[0])
    a = _arr(tr, VRef(r.target, r.idxs))
    d = c.dest()
    if not (d.node.kind == "struct" and d.node.tag == "SliceIter"):
        raise TranslateError(f"slice iter into {d.node.name} (tag {getattr(d.node, 'tag', None)})")
    tr.store(Loc(d.node.f("vec"), d.idxs), VRef(a.node, a.idxs))
    tr.emit(f"{tr.lv(Loc(d.node.f('pos'), d.idxs))} = {r.off if r.off is not None else '0'};")


def slice_iter_next(tr, it: Loc, dest: Loc):
    a = tr.deref(VLoc(Loc(it.node.f("vec"), it.idxs)))
    pos = tr.lv(Loc(it.node.f("pos"), it.idxs))
    ln = tr.lv(Loc(a.node.len, a.idxs))
    n = dest.node
    si, ni = n.vindex("Some"), n.vindex("None")
    pc = tr.tmp("usize", "sposc")
    tr.emit(f"{pc} = ({pos} < {a.node.cap}) ? {pos} : 0;")
    tr.emit(f'__CPROVER_assert({pos} >= {ln} || {pos} < {a.node.cap}, "BOUND slice iteration within model capacity");')
    tr.emit(f"if ({pos} < {ln}) {{ {tr.lv(Loc(n.discr, dest.idxs))} = {si};")
    tr.store(Loc(n.variants[si][1].fields[0], dest.idxs), VRef(a.node.elem, a.idxs + [pc]))
    tr.emit(f"{pos} = {pos} + 1; }} else {{ {tr.lv(Loc(n.discr, dest.idxs))} = {ni}; }}")


@model("Iter::next:SliceIter", doc="slice iterator next()")
def m_slice_iter_next(tr, c):
    slice_iter_next(tr, tr.deref(c.args[0]), c.dest())


def t_enumerate(tr, ty, name, dims, storage, g):
    s_ = StructN(ty, name, dims, storage, "Enumerate")
    s_.fields.append(tr.alloc(ty.args[0], name + "_inner", dims, storage, g)); s_.names.append("inner")
    s_.fields.append(ScalarN(None, name + "_count", dims, storage, "usize")); s_.names.append("count")
    return s_


@model(rx(r"<[A-Za-z]+ as Iterator>::enumerate"), rx(r"(core::iter::)?Iterator::enumerate"), doc="Iterator::enumerate: counter starting at 0")
def m_enumerate(tr, c):
    d = c.dest()
    v = c.args[0]
    tr.copy(Loc(d.node.f("inner"), d.idxs), v.loc if isinstance(v, VLoc) else tr.deref(v))
    tr.emit(f"{tr.lv(Loc(d.node.f('count'), d.idxs))} = 0;")


@model("<Enumerate as Iterator>::next", doc="(count, item) pairs; the count advances with every item")
def m_enumerate_next(tr, c):
    it = self_loc(tr, c.args[0])
    inner = Loc(it.node.f("inner"), it.idxs)
    if not (inner.node.kind == "struct" and inner.node.tag == "SliceIter"):
        raise TranslateError(f"enumerate over {inner.node.name} (tag {getattr(inner.node, 'tag', None)}) is not modelled")
    d = c.dest()
    n = d.node
    si, ni = n.vindex("Some"), n.vindex("None")
    tup = n.variants[si][1].fields[0]
    tr.tmpn += 1
    tmp = tr.make_enum(None, f"enit{tr.tmpn}", [], tr.cur.storage, [("None", []), ("Some", [])])
    tmp.variants[1][1].fields.append(RefN(None, f"enit{tr.tmpn}_Some_0", [], tr.cur.storage)); tmp.variants[1][1].names.append("0")
    slice_iter_next(tr, inner, Loc(tmp, []))
    cnt = tr.lv(Loc(it.node.f("count"), it.idxs))
    tr.emit(f"if ({tr.lv(Loc(tmp.discr, []))} == 1) {{ {tr.lv(Loc(n.discr, d.idxs))} = {si}; {tr.lv(Loc(tup.fields[0], d.idxs))} = {cnt}; {cnt} = {cnt} + 1;")
    tr.copy(Loc(tup.fields[1], d.idxs), Loc(tmp.variants[1][1].fields[0], []))
    tr.emit(f"}} else {{ {tr.lv(Loc(n.discr, d.idxs))} = {ni}; }}")


def install3(tr):
    tm = tr.type_models
    old_iter = tm.get("Iter")

    def iter_dispatch(tr_, ty, name, dims, storage, g):
        if "slice" in ty.full:
            return t_sliceiter(tr_, ty, name, dims, storage, g)
        return old_iter(tr_, ty, name, dims, storage, g)
    tm["Iter"] = iter_dispatch
    tm["Enumerate"] = t_enumerate
