// Kani harnesses for src/delegated_safety/reserve.rs (included from there under cfg(kani); see MANIFEST.hooks).
// They call the crate-private functions directly (super::*), on symbolic inputs.
#![allow(unused_imports)]
use super::*;
// explicit imports: the harness must keep compiling when the module's own `use` lines change
use revm::context_interface::journaled_state::entry::SelfdestructionRevertStatus;
use revm_context::{JournalEntry, TxEnv};
use revm_primitives::{Address, TxKind, U256};

fn any_addr() -> Address {
    // three distinct abstract addresses are enough for from / to / target / caller relations
    let k: u8 = kani::any();
    kani::assume(k < 3);
    Address::with_last_byte(k)
}

fn any_small_u256() -> U256 {
    let v: u64 = kani::any();
    U256::from(v)
}

fn tx_with(caller: Address, value: U256, kind: TxKind) -> TxEnv {
    TxEnv { caller, value, kind, ..Default::default() }
}

/// C13-H(root): is_root_value_transfer(entry, tx)  <=>  entry is a BalanceTransfer from the caller of exactly tx.value
/// and, for a CALL transaction, to the transaction's target (a CREATE transaction's first such transfer is the root one).
#[kani::proof]
#[kani::unwind(34)]
fn c13_root_value_transfer_rule() {
    let caller = any_addr();
    let value = any_small_u256();
    let is_call: bool = kani::any();
    let target = any_addr();
    let kind = if is_call { TxKind::Call(target) } else { TxKind::Create };
    let tx = tx_with(caller, value, kind);
    let from = any_addr();
    let to = any_addr();
    let balance = any_small_u256();
    let which: u8 = kani::any();
    kani::assume(which < 3);
    let entry = match which {
        0 => JournalEntry::BalanceTransfer { from, to, balance },
        1 => JournalEntry::BalanceChange { address: from, old_balance: balance },
        _ => JournalEntry::AccountDestroyed {
            had_balance: balance,
            address: from,
            target: to,
            destroyed_status: SelfdestructionRevertStatus::GloballySelfdestroyed,
        },
    };
    let got = is_root_value_transfer(&entry, &tx);
    let want = which == 0 && from == caller && balance == value && (!is_call || to == target);
    assert_eq!(got, want);
    kani::cover!(got && is_call);
    kani::cover!(!got && which == 0 && from == caller && balance == value);
}

// ruint's limb arithmetic calls x86 carry intrinsics that Kani does not model: exact stand-ins (listed in evidence)
fn stub_subborrow_u64(c_in: u8, a: u64, b: u64, out: &mut u64) -> u8 {
    let (r1, o1) = a.overflowing_sub(b);
    let (r2, o2) = r1.overflowing_sub(c_in as u64);
    *out = r2;
    (o1 || o2) as u8
}

fn stub_addcarry_u64(c_in: u8, a: u64, b: u64, out: &mut u64) -> u8 {
    let (r1, o1) = a.overflowing_add(b);
    let (r2, o2) = r1.overflowing_add(c_in as u64);
    *out = r2;
    (o1 || o2) as u8
}

fn step(a: Address, other: Address, bal: U256) -> (JournalEntry, U256) {
    let kind: u8 = kani::any();
    kani::assume(kind < 5);
    let v: u32 = kani::any();
    let v = U256::from(v);
    match kind {
        0 => {
            kani::assume(bal >= v);
            (JournalEntry::BalanceTransfer { from: a, to: other, balance: v }, bal - v)
        }
        1 => (JournalEntry::BalanceTransfer { from: other, to: a, balance: v }, bal + v),
        2 => (JournalEntry::BalanceTransfer { from: a, to: a, balance: v }, bal),
        3 => (
            JournalEntry::AccountDestroyed {
                had_balance: bal,
                address: a,
                target: other,
                destroyed_status: SelfdestructionRevertStatus::GloballySelfdestroyed,
            },
            U256::ZERO,
        ),
        _ => (JournalEntry::BalanceChange { address: a, old_balance: bal }, v),
    }
}

/// C13-H2: balance_before_entry inverts a forward-applied journal of two balance entries touching `a`
/// (transfer out / in / to self, self-destruct, direct balance change), from any entry index.
#[kani::proof]
#[kani::unwind(34)]
#[kani::stub(std::arch::x86_64::_subborrow_u64, stub_subborrow_u64)]
#[kani::stub(std::arch::x86_64::_addcarry_u64, stub_addcarry_u64)]
fn c13_balance_before_inverts_two_entries() {
    let a = Address::with_last_byte(0);
    let other = Address::with_last_byte(1);
    let b0: u32 = kani::any();
    let b0 = U256::from(b0);
    let (e0, b1) = step(a, other, b0);
    let (e1, b2) = step(a, other, b1);
    let entries = [e0, e1];
    assert_eq!(balance_before_entry(&entries, 0, a, b2), b0);
    assert_eq!(balance_before_entry(&entries, 1, a, b2), b1);
}

/// C13-H1: AccountReserveSchedule::required_after(txid) = the suffix entry of the account's first transaction strictly
/// after txid, zero when there is none (3 transactions, any strictly increasing ids, any query).
#[kani::proof]
#[kani::unwind(34)]
fn c13_schedule_required_after() {
    let t0: usize = kani::any();
    let t1: usize = kani::any();
    let t2: usize = kani::any();
    kani::assume(t0 < t1 && t1 < t2 && t2 < 64);
    let c: [u64; 3] = kani::any();
    let schedule = AccountReserveSchedule {
        txids: vec![t0, t1, t2],
        cost_from: vec![U256::from(c[0]), U256::from(c[1]), U256::from(c[2])],
    };
    let q: usize = kani::any();
    kani::assume(q < 64);
    let got = schedule.required_after(q);
    let want = if q < t0 {
        U256::from(c[0])
    } else if q < t1 {
        U256::from(c[1])
    } else if q < t2 {
        U256::from(c[2])
    } else {
        U256::ZERO
    };
    assert_eq!(got, want);
}
