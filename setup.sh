#!/bin/bash
# Builds everything the checks need from files on disk only (offline): warms the nightly MIR-dump target dir.
set -e
cd "$(dirname "$0")"
export CARGO_NET_OFFLINE=true
mkdir -p .cache .work evidence replays
python3 - <<'PY'
import sys
sys.path.insert(0, 'checks'); sys.path.insert(0, 'mir2c')
import run
mir, src, h = run.prepare_mir()
print("MIR ready:", h, len(mir.splitlines()), "lines")
PY
# warm the Kani target directory (C13): first build of the crate under cargo-kani takes a few minutes
python3 - <<'PY' || true
import sys
sys.path.insert(0, 'checks'); sys.path.insert(0, 'mir2c')
import kani_run, c13
r = kani_run.run("C13", c13.KANI, timeout=2400)
print("Kani warm-up:", [(x["name"], x["status"]) for x in r])
PY
