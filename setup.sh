#!/bin/bash
# Builds everything the checks need from files on disk only (offline): warms the nightly MIR-dump target dir.
set -e
cd "$(dirname "$0")"
export CARGO_NET_OFFLINE=true
mkdir -p .cache .work evidence replays
python3 - <<'PY'
import sys
sys.path.insert(0, 'checks'); sys.path.insert(0, 'mir2c')
import run
mir, src, h = run.prepare_mir()
print("MIR ready:", h, len(mir.splitlines()), "lines")
PY
