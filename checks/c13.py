"""C13  Delegated-balance reserve keeps an account's later transactions fundable  (grevm's own rules).

  h1_violation_predicate (mir2c -> CBMC): real WithReserveHandler::has_reserve_violation with the journal scan and the
        planner as solver-chosen oracles: a violation is reported iff SOME candidate debit has a non-zero future cost and a
        final balance below min(balance before its first debit, future cost) -- for any number (0..2) and order of candidates.
  kani_c13_root_value_transfer_rule (Kani on the compiled crate): is_root_value_transfer(entry, tx) <=> the entry is a
        BalanceTransfer from the caller of exactly tx.value and, for a CALL transaction, to the transaction's target.
  kani_c13_balance_before_inverts_two_entries: balance_before_entry undoes any forward-applied pair of balance entries
        (transfer out / in / to self, self-destruct, direct balance change), from either entry index.
  kani_c13_schedule_required_after: the suffix lookup returns the entry of the first own transaction strictly after txid.
Outside the claim: the end-to-end funding guarantee over real EVM runs, build_schedule's sums over TxEnv::max_balance_spending
(revm), the handler's revert / refund / reimbursement call sequence.
"""
from run import Spec
import harness as hz
from translate import Loc, VAgg, VRef, VScalar, VLoc, VUnit, TranslateError
import revm_types
import revm_models
import sched_common as sc
import kani_run

WIDE = "unsigned char"
KANI = ["c13_root_value_transfer_rule", "c13_balance_before_inverts_two_entries", "c13_schedule_required_after"]


def stubs():
    unitv = lambda tr, c: c.ret(VUnit())

    def debits(tr, c):
        d = c.dest()
        tr.emit(f"{tr.lv(Loc(d.node.len, d.idxs))} = ncand;")
        for k in range(d.node.cap):
            e = Loc(d.node.elem, d.idxs + [str(k)])
            tr.emit(f"{tr.lv(Loc(e.node.f('address'), e.idxs))} = cand_addr[{k}]; {tr.lv(Loc(e.node.f('balance_before'), e.idxs))} = cand_before[{k}]; "
                    f"{tr.lv(Loc(e.node.f('final_balance'), e.idxs))} = cand_final[{k}];")

    def required_after(tr, c):
        txid = tr.as_scalar(c.args[1]).expr
        a = tr.as_scalar(c.args[2]).expr
        tr.emit(f"if ({txid} != 5) planner_txid_ok = 0; __CPROVER_assume({a} < 3);")
        c.ret(VScalar(f"future[{a}]", WIDE))
    return {"<&EVM as EvmTr>::ctx_ref": unitv, "<EVM as EvmTr>::ctx_ref": unitv, "<assoc as ContextTr>::journal": unitv, "<assoc as ContextTr>::tx": unitv,
            "<assoc as ReserveJournalExt>::delegated_debits_since": debits, "ReservePlanner::required_after": required_after,
            "<Level as PartialOrd>::le": sc.m_level_le}


def cfg():
    ov = revm_types.base_overrides()
    ov.update(revm_models.type_overrides(WIDE))
    for k in ("EVM", "FRAME", "JournalCheckpoint", "ReservePlanner", "BeneficiaryMode", "PhantomData"):
        ov[k] = revm_types.unit
    ov["ERROR"] = revm_types.scalar("unsigned char")
    return {"type_overrides": ov, "stubs": stubs(), "cap": 2, "noops": [r"^metrics::", r"with_recorder", r"Counter::", r"Histogram::"], "dead_calls": sc.TRACING_DEAD,
            "opaque_types": [r"tracing", r"^<.* as .*>::", r"metrics"], "consts": revm_models.consts(), "extra_src": revm_models.extra_src_roots(),
            "loops": {"WithReserveHandler::has_reserve_violation": {"*": (4, "assert")}}}


def build_h1():
    def b(tr):
        H = hz.Harness(tr, "c13_h1")
        H.cvar("ncand", "usize", shared=False); H.cvar("planner_txid_ok", "_Bool", shared=False)
        for nm, ct, n in (("cand_addr", "unsigned char", 2), ("cand_before", WIDE, 2), ("cand_final", WIDE, 2), ("future", WIDE, 3)):
            H.cvar(nm, ct, dims=[n], shared=False)
        H.c("ncand = nondet_usize(); __CPROVER_assume(ncand <= 2); planner_txid_ok = 1;")
        for k in range(2):
            H.c(f"cand_addr[{k}] = nondet_uchar(); __CPROVER_assume(cand_addr[{k}] < 3); cand_before[{k}] = nondet_uchar(); cand_final[{k}] = nondet_uchar();")
        for a in range(3):
            H.c(f"future[{a}] = nondet_uchar();")
        hd = H.local("handler", "WithReserveHandler<EVM, ERROR, FRAME>")
        H.c(f"{H.lv(hd, 'txid')} = 5;")
        evm = H.local("evm", "EVM")
        ck = H.local("ck", "JournalCheckpoint")
        res = H.local("res", "Result<bool, ERROR>")
        H.call("WithReserveHandler::has_reserve_violation", [H.ref(hd), H.ref(evm), VLoc(Loc(ck, []))], res)
        viol = []
        for k in range(2):
            f = f"future[cand_addr[{k}]]"
            viol.append(f"({k} < ncand && {f} != 0 && cand_final[{k}] < (cand_before[{k}] < {f} ? cand_before[{k}] : {f}))")
        H.assert_(f"{H.lv(res, 'd')} == {H.variant(res, '', 'Ok')} && {H.lv(res, 'Ok.0')} == ({' || '.join(viol)})",
                  "violation <=> some surviving delegated debit has a non-zero future cost and a final balance below min(balance before the debit, future cost)")
        H.assert_("planner_txid_ok", "the planner is queried with the handler's own (global) transaction index")
        H.cover(f"{H.lv(res, 'Ok.0')} && ncand == 2 && !{viol[0]}", "only the second candidate violates")
        H.cover(f"!{H.lv(res, 'Ok.0')} && ncand == 2", "two candidates, no violation")
        return H
    return b


# ---------------------------------------------------------------------------------------------------------------------
# h2: the journal scan itself (ReserveJournalExt::delegated_debits_since + is_root_value_transfer + balance_before_entry)
NA2 = 3      # abstract addresses
NJ = 3       # journal entries (bound)


def t_txkind(tr, ty, name, dims, storage, g=None):
    from rtypes import parse_type
    return tr.make_enum(ty, name, dims, storage, [("Create", []), ("Call", [parse_type("Address")])], g)


def stubs2():
    def is_7702(tr, c):
        loc = tr.deref(c.args[0])
        c.ret(VScalar(f"(({tr.lv(Loc(loc.node.f('id'), loc.idxs))} & 1) != 0)", "_Bool"))
    return {"Bytecode::is_eip7702": is_7702, "<Level as PartialOrd>::le": sc.m_level_le}


def cfg2(NJ=NJ):
    import glob, os
    ov = revm_types.base_overrides()
    ov.update(revm_models.type_overrides(WIDE))
    ov["TxKind"] = t_txkind
    ov.pop("TxEnv", None)       # the real field list of revm-context's TxEnv (parsed from the registry sources)
    for k in ("DB", "TransientStorage", "Log", "JournalCfg", "WarmAddresses", "PhantomData", "EvmStorage", "AccessList", "Bytes",
              "RecoveredAuthorization", "SignedAuthorization"):
        ov[k] = revm_types.unit
    r = revm_models.registry_root()
    extra = revm_models.extra_src_roots()
    for pat in ("revm-context-interface-19*/src",):
        extra += [q for q in glob.glob(os.path.join(r, pat)) if os.path.isdir(q)]
    return {"type_overrides": ov, "stubs": stubs2(), "cap": NJ, "noops": [r"^metrics::"], "dead_calls": sc.TRACING_DEAD,
            "opaque_types": [r"tracing"], "consts": revm_models.consts(), "extra_src": extra,
            "key_caps": {"Address": NA2}, "key_cap": NA2, "set_iter_cap": NA2,
            "aliases": {"EvmState": "HashMap<Address, Account>"},
            "loops": {"*": {"*": (NJ + 2, "assert")}}}


def build_h2(NJ=NJ):
    def b(tr):
        H = hz.Harness(tr, "c13_h2")
        j = H.local("journal", "Journal<DB, JournalEntry>")
        tx = H.local("tx", "TxEnv")
        ck = H.local("ck", "JournalCheckpoint")
        out = H.local("out", "Vec<DelegatedDebit>")
        ent = H.nav(j, "inner.journal.e")
        jl = H.lv(j, "inner.journal.len")
        st = H.nav(j, "inner.state")
        V = lambda name: H.variant(ent, "", name)
        BT, AD, BC, AT = V("BalanceTransfer"), V("AccountDestroyed"), V("BalanceChange"), V("AccountTouched")
        # ---- arbitrary journal of <= NJ entries of the four kinds that matter (AccountTouched stands for every other kind)
        H.c(f"{jl} = nondet_usize(); __CPROVER_assume({jl} <= {NJ});")
        for i in range(NJ):
            d = H.lv(ent, "d", [i])
            H.c(f"{d} = nondet_uchar(); __CPROVER_assume({d} == {BT} || {d} == {AD} || {d} == {BC} || {d} == {AT});")
            for path in ("BalanceTransfer.from", "BalanceTransfer.to", "AccountDestroyed.address", "AccountDestroyed.target", "BalanceChange.address", "AccountTouched.address"):
                H.c(f"{H.lv(ent, path, [i])} = nondet_uchar(); __CPROVER_assume({H.lv(ent, path, [i])} < {NA2});")
            for path in ("BalanceTransfer.balance", "AccountDestroyed.had_balance", "BalanceChange.old_balance"):
                H.c(f"{H.lv(ent, path, [i])} = nondet_uchar();")
        # ---- arbitrary journal state: presence, balance, code (None / Some(id); odd id = EIP-7702 designator)
        for a in range(NA2):
            H.c(f"{H.lv(st, 'present.e', [a])} = nondet_bool(); {H.lv(st, 'keys.e', [a])} = {a};")
            H.c(f"{H.lv(st, 'vals.e.info.balance', [a])} = nondet_uchar(); {H.lv(st, 'vals.e.info.code.d', [a])} = nondet_bool(); {H.lv(st, 'vals.e.info.code.Some.0.id', [a])} = nondet_uchar();")
        # ---- arbitrary transaction (caller, value, CALL target or CREATE) and checkpoint
        H.c(f"{H.lv(tx, 'caller')} = nondet_uchar(); __CPROVER_assume({H.lv(tx, 'caller')} < {NA2}); {H.lv(tx, 'value')} = nondet_uchar();")
        H.c(f"{H.lv(tx, 'kind.d')} = nondet_bool(); {H.lv(tx, 'kind.Call.0')} = nondet_uchar(); __CPROVER_assume({H.lv(tx, 'kind.Call.0')} < {NA2});")
        H.c(f"{H.lv(ck, 'journal_i')} = nondet_usize(); __CPROVER_assume({H.lv(ck, 'journal_i')} <= {jl});")
        H.call("<Journal as ReserveJournalExt>::delegated_debits_since", [H.ref(j), VLoc(Loc(ck, [])), H.ref(tx)], out)
        # ---- oracle, written directly over the harness state
        H.cvar("root_idx", "usize", shared=False); H.cvar("first", "usize", dims=[NA2], shared=False); H.cvar("before", WIDE, dims=[NA2], shared=False)
        H.cvar("want", "_Bool", dims=[NA2], shared=False); H.cvar("seen", "unsigned char", dims=[NA2], shared=False)
        call_i = H.variant(tx, "kind", "Call")
        H.c(f"root_idx = 99;")
        for i in range(NJ):
            d = H.lv(ent, "d", [i])
            H.c(f"if (root_idx == 99 && {i} >= {H.lv(ck, 'journal_i')} && {i} < {jl} && {H.lv(tx, 'value')} != 0 && {d} == {BT} && {H.lv(ent, 'BalanceTransfer.from', [i])} == {H.lv(tx, 'caller')} && "
                f"{H.lv(ent, 'BalanceTransfer.balance', [i])} == {H.lv(tx, 'value')} && ({H.lv(tx, 'kind.d')} != {call_i} || {H.lv(ent, 'BalanceTransfer.to', [i])} == {H.lv(tx, 'kind.Call.0')})) root_idx = {i};")
        for a in range(NA2):
            deleg = f"({H.lv(st, 'present.e', [a])} && {H.lv(st, 'vals.e.info.code.d', [a])} == {H.variant(H.nav(st, 'vals.e.info.code'), '', 'Some')} && ({H.lv(st, 'vals.e.info.code.Some.0.id', [a])} & 1))"
            H.c(f"first[{a}] = 99; seen[{a}] = 0;")
            for i in range(NJ):
                d = H.lv(ent, "d", [i])
                debit = (f"(({d} == {BT} && {H.lv(ent, 'BalanceTransfer.from', [i])} == {a} && {H.lv(ent, 'BalanceTransfer.to', [i])} != {a} && {H.lv(ent, 'BalanceTransfer.balance', [i])} != 0) || "
                         f"({d} == {AD} && {H.lv(ent, 'AccountDestroyed.address', [i])} == {a} && {H.lv(ent, 'AccountDestroyed.had_balance', [i])} != 0))")
                H.c(f"if (first[{a}] == 99 && {i} >= {H.lv(ck, 'journal_i')} && {i} < {jl} && {i} != root_idx && {debit}) first[{a}] = {i};")
            H.c(f"want[{a}] = {deleg} && first[{a}] != 99;")
            # the balance before the first protected debit: undo the balance journal from the end back to it (saturating, as the code documents)
            H.c(f"before[{a}] = {H.lv(st, 'vals.e.info.balance', [a])};")
            for i in reversed(range(NJ)):
                d = H.lv(ent, "d", [i])
                val_bt, val_ad = H.lv(ent, 'BalanceTransfer.balance', [i]), H.lv(ent, 'AccountDestroyed.had_balance', [i])
                add = lambda v: f"before[{a}] = (({WIDE})(before[{a}] + {v}) < before[{a}]) ? ({WIDE})~({WIDE})0 : ({WIDE})(before[{a}] + {v});"
                subt = lambda v: f"before[{a}] = (before[{a}] > {v}) ? ({WIDE})(before[{a}] - {v}) : ({WIDE})0;"
                H.c(f"if ({i} < {jl} && {i} >= first[{a}]) {{ "
                    f"if ({d} == {BT}) {{ if ({H.lv(ent, 'BalanceTransfer.from', [i])} == {a} && {H.lv(ent, 'BalanceTransfer.to', [i])} != {a}) {{ {add(val_bt)} }} else if ({H.lv(ent, 'BalanceTransfer.to', [i])} == {a} && {H.lv(ent, 'BalanceTransfer.from', [i])} != {a}) {{ {subt(val_bt)} }} }} "
                    f"else if ({d} == {AD}) {{ if ({H.lv(ent, 'AccountDestroyed.address', [i])} == {a}) {{ {add(val_ad)} }} else if ({H.lv(ent, 'AccountDestroyed.target', [i])} == {a}) {{ {subt(val_ad)} }} }} "
                    f"else if ({d} == {BC} && {H.lv(ent, 'BalanceChange.address', [i])} == {a}) {{ before[{a}] = {H.lv(ent, 'BalanceChange.old_balance', [i])}; }} }}")
        ol = H.lv(out, "len")
        H.assert_(f"{ol} == (usize)(want[0] + want[1] + want[2])", "one candidate per delegated account with a surviving protected debit after the checkpoint (root value transfer excluded), no other")
        for k in range(NA2):
            ad = H.lv(out, "e.address", [k]); bb = H.lv(out, "e.balance_before", [k]); fb = H.lv(out, "e.final_balance", [k])
            H.c(f"if ({k} < {ol} && {ad} < {NA2}) seen[{ad}]++;")
            H.assert_(f"!({k} < {ol}) || ({ad} < {NA2} && want[{ad}])", f"candidate {k} is a delegated account with a surviving protected debit")
            H.assert_(f"!({k} < {ol} && {ad} < {NA2}) || {fb} == {H.nav(st, 'vals.e.info.balance').name}[{ad}]", f"candidate {k}: final balance is the journal state's balance")
            H.assert_(f"!({k} < {ol} && {ad} < {NA2}) || {bb} == before[{ad}]", f"candidate {k}: balance_before is the balance immediately before the account's FIRST surviving protected debit")
        H.assert_(" && ".join(f"seen[{a}] <= 1" for a in range(NA2)), "no account is reported twice")
        H.cover(f"{ol} == 2", "two delegated accounts debited")
        H.cover(f"{ol} == 1 && root_idx != 99", "a root value transfer skipped and a protected debit found")
        H.cover(f"want[0] && first[0] == 0 && {jl} == 3 && {H.lv(ent, 'd', [2])} == {BT} && {H.lv(ent, 'BalanceTransfer.from', [2])} == 0 && {H.lv(ent, 'BalanceTransfer.to', [2])} != 0 && {H.lv(ent, 'BalanceTransfer.balance', [2])} != 0 && before[0] != {H.lv(st, 'vals.e.info.balance', [0])}", "two debits of the same account with entries between them")
        return H
    return b


def specs(tier):
    return [Spec("h1_violation_predicate", build_h1(), cfg=cfg(), unwind=5, timeout=1800,
                 desc="real WithReserveHandler::has_reserve_violation; journal scan and planner are solver-chosen oracles",
                 bounds={"candidates": 2, "value_bits": 8}),
            Spec("h2_journal_scan", build_h2(), cfg=cfg2(), unwind=NJ + 3, timeout=1800,
                 desc="real ReserveJournalExt::delegated_debits_since + is_root_value_transfer + balance_before_entry over ANY journal of <= 3 balance-relevant entries, any journal state of 3 accounts, any checkpoint and transaction; oracle written over the harness state",
                 bounds={"journal_entries": NJ, "addresses": NA2, "value_bits": 8})] + ([
            Spec("h2_journal_scan_4", build_h2(4), cfg=cfg2(4), unwind=7, timeout=5400,
                 desc="the journal-scan kernel with journals of <= 4 entries", bounds={"journal_entries": 4, "addresses": NA2, "value_bits": 8})] if tier == "thorough" else [])


def extra_results(tier):
    return kani_run.run("C13", KANI, timeout=1500, desc={
        "c13_root_value_transfer_rule": "Kani: is_root_value_transfer over symbolic entry / caller / value / CALL target or CREATE (3 abstract addresses, 64-bit values)",
        "c13_balance_before_inverts_two_entries": "Kani: balance_before_entry inverts any forward-applied pair of balance entries (32-bit amounts)",
        "c13_schedule_required_after": "Kani: AccountReserveSchedule::required_after on 3 own transactions with any increasing ids < 64"})
