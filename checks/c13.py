"""C13  Delegated-balance reserve keeps an account's later transactions fundable  (grevm's own rules).

  h1_violation_predicate (mir2c -> CBMC): real WithReserveHandler::has_reserve_violation with the journal scan and the
        planner as solver-chosen oracles: a violation is reported iff SOME candidate debit has a non-zero future cost and a
        final balance below min(balance before its first debit, future cost) -- for any number (0..2) and order of candidates.
  kani_c13_root_value_transfer_rule (Kani on the compiled crate): is_root_value_transfer(entry, tx) <=> the entry is a
        BalanceTransfer from the caller of exactly tx.value and, for a CALL transaction, to the transaction's target.
  kani_c13_balance_before_inverts_two_entries: balance_before_entry undoes any forward-applied pair of balance entries
        (transfer out / in / to self, self-destruct, direct balance change), from either entry index.
  kani_c13_schedule_required_after: the suffix lookup returns the entry of the first own transaction strictly after txid.
Outside the claim: the end-to-end funding guarantee over real EVM runs, build_schedule's sums over TxEnv::max_balance_spending
(revm), the handler's revert / refund / reimbursement call sequence.
"""
from run import Spec
import harness as hz
from translate import Loc, VAgg, VRef, VScalar, VLoc, VUnit, TranslateError
import revm_types
import revm_models
import sched_common as sc
import kani_run

WIDE = "unsigned char"
KANI = ["c13_root_value_transfer_rule", "c13_balance_before_inverts_two_entries", "c13_schedule_required_after"]


def stubs():
    unitv = lambda tr, c: c.ret(VUnit())

    def debits(tr, c):
        d = c.dest()
        tr.emit(f"{tr.lv(Loc(d.node.len, d.idxs))} = ncand;")
        for k in range(d.node.cap):
            e = Loc(d.node.elem, d.idxs + [str(k)])
            tr.emit(f"{tr.lv(Loc(e.node.f('address'), e.idxs))} = cand_addr[{k}]; {tr.lv(Loc(e.node.f('balance_before'), e.idxs))} = cand_before[{k}]; "
                    f"{tr.lv(Loc(e.node.f('final_balance'), e.idxs))} = cand_final[{k}];")

    def required_after(tr, c):
        txid = tr.as_scalar(c.args[1]).expr
        a = tr.as_scalar(c.args[2]).expr
        tr.emit(f"if ({txid} != 5) planner_txid_ok = 0; __CPROVER_assume({a} < 3);")
        c.ret(VScalar(f"future[{a}]", WIDE))
    return {"<&EVM as EvmTr>::ctx_ref": unitv, "<EVM as EvmTr>::ctx_ref": unitv, "<assoc as ContextTr>::journal": unitv, "<assoc as ContextTr>::tx": unitv,
            "<assoc as ReserveJournalExt>::delegated_debits_since": debits, "ReservePlanner::required_after": required_after,
            "<Level as PartialOrd>::le": sc.m_level_le}


def cfg():
    ov = revm_types.base_overrides()
    ov.update(revm_models.type_overrides(WIDE))
    for k in ("EVM", "FRAME", "JournalCheckpoint", "ReservePlanner", "BeneficiaryMode", "PhantomData"):
        ov[k] = revm_types.unit
    ov["ERROR"] = revm_types.scalar("unsigned char")
    return {"type_overrides": ov, "stubs": stubs(), "cap": 2, "noops": [r"^metrics::", r"with_recorder", r"Counter::", r"Histogram::"], "dead_calls": sc.TRACING_DEAD,
            "opaque_types": [r"tracing", r"^<.* as .*>::", r"metrics"], "consts": revm_models.consts(), "extra_src": revm_models.extra_src_roots(),
            "loops": {"WithReserveHandler::has_reserve_violation": {"*": (4, "assert")}}}


def build_h1():
    def b(tr):
        H = hz.Harness(tr, "c13_h1")
        H.cvar("ncand", "usize", shared=False); H.cvar("planner_txid_ok", "_Bool", shared=False)
        for nm, ct, n in (("cand_addr", "unsigned char", 2), ("cand_before", WIDE, 2), ("cand_final", WIDE, 2), ("future", WIDE, 3)):
            H.cvar(nm, ct, dims=[n], shared=False)
        H.c("ncand = nondet_usize(); __CPROVER_assume(ncand <= 2); planner_txid_ok = 1;")
        for k in range(2):
            H.c(f"cand_addr[{k}] = nondet_uchar(); __CPROVER_assume(cand_addr[{k}] < 3); cand_before[{k}] = nondet_uchar(); cand_final[{k}] = nondet_uchar();")
        for a in range(3):
            H.c(f"future[{a}] = nondet_uchar();")
        hd = H.local("handler", "WithReserveHandler<EVM, ERROR, FRAME>")
        H.c(f"{H.lv(hd, 'txid')} = 5;")
        evm = H.local("evm", "EVM")
        ck = H.local("ck", "JournalCheckpoint")
        res = H.local("res", "Result<bool, ERROR>")
        H.call("WithReserveHandler::has_reserve_violation", [H.ref(hd), H.ref(evm), VLoc(Loc(ck, []))], res)
        viol = []
        for k in range(2):
            f = f"future[cand_addr[{k}]]"
            viol.append(f"({k} < ncand && {f} != 0 && cand_final[{k}] < (cand_before[{k}] < {f} ? cand_before[{k}] : {f}))")
        H.assert_(f"{H.lv(res, 'd')} == {H.variant(res, '', 'Ok')} && {H.lv(res, 'Ok.0')} == ({' || '.join(viol)})",
                  "violation <=> some surviving delegated debit has a non-zero future cost and a final balance below min(balance before the debit, future cost)")
        H.assert_("planner_txid_ok", "the planner is queried with the handler's own (global) transaction index")
        H.cover(f"{H.lv(res, 'Ok.0')} && ncand == 2 && !{viol[0]}", "only the second candidate violates")
        H.cover(f"!{H.lv(res, 'Ok.0')} && ncand == 2", "two candidates, no violation")
        return H
    return b


def specs(tier):
    return [Spec("h1_violation_predicate", build_h1(), cfg=cfg(), unwind=5, timeout=1800,
                 desc="real WithReserveHandler::has_reserve_violation; journal scan and planner are solver-chosen oracles",
                 bounds={"candidates": 2, "value_bits": 8})]


def extra_results(tier):
    return kani_run.run("C13", KANI, timeout=1500, desc={
        "c13_root_value_transfer_rule": "Kani: is_root_value_transfer over symbolic entry / caller / value / CALL target or CREATE (3 abstract addresses, 64-bit values)",
        "c13_balance_before_inverts_two_entries": "Kani: balance_before_entry inverts any forward-applied pair of balance entries (32-bit amounts)",
        "c13_schedule_required_after": "Kani: AccountReserveSchedule::required_after on 3 own transactions with any increasing ids < 64"})
