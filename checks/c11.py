"""C11  Custom precompiles via the state facade  (the facade's own discipline; gas / call-frame reverts are revm's).

Real code (MIR -> C): precompile.rs {ParallelPrecompileState::{balance, sload, set_balance, sstore, ensure_healthy,
ensure_mutable, record_fault}, ParallelPrecompileError::database}.  revm's EvmInternals (the journal) is uninterpreted: every
internals call is a counting ghost that succeeds or fails as the solver chooses.

  h1_facade : for every facade method, static flag, prior recorded fault (none / halt / fatal) and journal outcome:
        * a recorded fault is sticky: the same fault is returned and NO journal call is made;
        * a mutation (set_balance / sstore) in a static context is refused with a halt BEFORE any journal call, and the
          refusal itself is recorded as the fault;
        * otherwise exactly one journal call is made and it is the journal-aware one for that method (load_account / sload /
          load_account_mut / sstore), so the access goes through IncarnationDb's read tracking;
        * a journal (database) error is recorded as a fatal fault and returned; success leaves no fault.
  h2_attempt_lifecycle : GrevmExecutor::execute_incarnation: every attempt -- successful OR failed -- begins the incarnation, runs the
        handler, FINALIZES the revm journal exactly once, then publishes (finish_incarnation) or discards (discard_incarnation): a
        discarded or retried attempt leaves no loaded account / slot behind in the worker's reused EVM.
  h3_alloy_adapter : the real adapter closure of DynParallelPrecompile::to_alloy (alloy's PrecompileInput reduced to the one field the adapter reads,
        from_alloy / the implementation / PrecompileOutput::halt as ghosts): a fault recorded by the facade during the call -- database fault
        (fatal) or static-context refusal (halt) -- IS the call's result whatever the implementation returned (an implementation that swallows
        or remaps the facade's error cannot hide a database fault from the scheduler); without a fault the implementation's result is forwarded
        (Ok unchanged, Halt -> halted output with the reservoir, Fatal -> EVM error); the implementation runs exactly once.
Outside the claim: gas accounting, call-frame revert semantics,
that executor and sequential replay register the same precompile list (both pass the same field to build_evm: by reading).
"""
from run import Spec
import harness as hz
from translate import Loc, VAgg, VRef, VScalar, VLoc, VUnit, VConst, TranslateError, StructN, ScalarN
import revm_types
import revm_models
import sched_common as sc

WIDE = "unsigned char"


def t_opaque_id(tr, ty, name, dims, storage, g=None):
    s = StructN(ty, name, dims, storage, "Opaque")
    s.fields.append(ScalarN(None, name + "_id", dims, storage, "unsigned char"))
    s.names.append("id")
    return s


def stubs():
    def internals(kind):
        def stub(tr, c):
            d = c.dest()
            n = d.node
            tr.emit(f"jcalls++; jkind = {kind};")
            tr.emit(f"{tr.lv(Loc(n.discr, d.idxs))} = jfails ? {n.vindex('Err')} : {n.vindex('Ok')};")
            e = n.variants[n.vindex('Err')][1].fields
            if e and e[0].kind == "struct" and e[0].fields and e[0].fields[0].kind == "scalar":
                tr.emit(f"{tr.lv(Loc(e[0].fields[0], d.idxs))} = 44;")
        return stub

    def database(tr, c):
        """ParallelPrecompileError::database(e) = Fatal(PrecompileError::Fatal(e.to_string())): modelled as Fatal(id 44)"""
        d = c.dest()
        n = d.node
        fi = n.vindex("Fatal")
        tr.emit(f"{tr.lv(Loc(n.discr, d.idxs))} = {fi}; {tr.lv(Loc(n.variants[fi][1].fields[0].fields[0], d.idxs))} = 44;")

    def other_static(tr, c):
        d = c.dest()
        tr.emit(f"{tr.lv(Loc(d.node.fields[0], d.idxs))} = 77;")

    def sl_map(tr, c):
        """StateLoad::map(f): the mapped value is revm plumbing; only the cold flag matters to callers"""
        tr.emit("maps++;")

    def get_or_insert(tr, c):
        o = tr.deref(c.args[0])
        si = o.node.vindex("Some")
        tr.emit(f"if ({tr.lv(Loc(o.node.discr, o.idxs))} != {si}) {{ {tr.lv(Loc(o.node.discr, o.idxs))} = {si};")
        tr.store(Loc(o.node.variants[si][1].fields[0], o.idxs), c.args[1])
        tr.emit("}")
        c.ret(VRef(o.node.variants[si][1].fields[0], o.idxs))
    return {"EvmInternals::load_account": internals(1), "EvmInternals::sload": internals(2), "EvmInternals::load_account_mut": internals(3),
            "EvmInternals::sstore": internals(4), "ParallelPrecompileError::database": database, "PrecompileHalt::other_static": other_static,
            "StateLoad::map": sl_map, "Option::get_or_insert": get_or_insert, "<Level as PartialOrd>::le": sc.m_level_le}


def cfg():
    ov = revm_types.base_overrides()
    ov.update(revm_models.type_overrides(WIDE))
    for k in ("EvmInternals", "SStoreResult", "JournaledAccountTr"):
        ov[k] = revm_types.unit
    for k in ("PrecompileHalt", "PrecompileError", "EvmInternalsError"):
        ov[k] = t_opaque_id
    import c12
    return {"type_overrides": ov, "stubs": stubs(), "cap": 2, "noops": [r"^metrics::"], "dead_calls": sc.TRACING_DEAD,
            "opaque_types": [r"tracing", r"^<.* as .*>::", r"^dyn "], "consts": revm_models.consts(),
            "extra_src": revm_models.extra_src_roots() + c12.c12_src()}


METHODS = [("balance", 1, False), ("sload", 2, False), ("set_balance", 3, True), ("sstore", 4, True)]


def build_h1():
    def b(tr):
        H = hz.Harness(tr, "c11_h1")
        for nm, ct in (("jcalls", "unsigned char"), ("jkind", "unsigned char"), ("jfails", "_Bool"), ("maps", "unsigned char"), ("which", "unsigned char")):
            H.cvar(nm, ct, shared=False)
        H.c("jcalls = 0; jkind = 0; maps = 0; jfails = nondet_bool(); which = nondet_uchar(); __CPROVER_assume(which < 4);")
        st = H.local("pstate", "ParallelPrecompileState")
        fault = H.nav(st, "fault")
        fe = H.nav(fault, "Some.0")
        H.c(f"{H.lv(st, 'is_static')} = nondet_bool(); {H.lv(fault, 'd')} = nondet_bool(); {H.lv(fe, 'd')} = nondet_bool();")
        H.c(f"{H.lv(fe, 'Halt.0.id')} = nondet_uchar(); {H.lv(fe, 'Fatal.0.id')} = nondet_uchar();")
        for nm in ("f0_some", "f0_kind", "f0_halt", "f0_fatal", "static0"):
            H.cvar(nm, "unsigned char", shared=False)
        H.c(f"f0_some = {H.lv(fault, 'd')}; f0_kind = {H.lv(fe, 'd')}; f0_halt = {H.lv(fe, 'Halt.0.id')}; f0_fatal = {H.lv(fe, 'Fatal.0.id')}; static0 = {H.lv(st, 'is_static')};")
        results = {}
        for i, (m, kind, mut) in enumerate(METHODS):
            rty = {"balance": "Result<StateLoad<U256>, ParallelPrecompileError>", "sload": "Result<StateLoad<U256>, ParallelPrecompileError>",
                   "set_balance": "Result<StateLoad<()>, ParallelPrecompileError>", "sstore": "Result<StateLoad<SStoreResult>, ParallelPrecompileError>"}[m]
            r = H.local(f"res_{m}", rty)
            results[m] = r
            H.c(f"if (which == {i}) {{")
            args = [H.ref(st), H.val("1", "unsigned char")]
            if m in ("sload", "sstore"):
                args.append(H.val("0", WIDE))
            if m in ("set_balance", "sstore"):
                args.append(H.val("9", WIDE))
            H.call(f"ParallelPrecompileState::{m}", args, r)
            H.c("}")
        halt_i, fatal_i = H.variant(fe, "", "Halt"), H.variant(fe, "", "Fatal")
        for i, (m, kind, mut) in enumerate(METHODS):
            r = results[m]
            d = H.lv(r, "d")
            ok, err = H.variant(r, "", "Ok"), H.variant(r, "", "Err")
            e = H.nav(r, "Err.0")
            me = f"(which == {i})"
            same_as_prior = (f"({d} == {err} && {H.lv(e, 'd')} == f0_kind && (f0_kind == {halt_i} ? {H.lv(e, 'Halt.0.id')} == f0_halt : {H.lv(e, 'Fatal.0.id')} == f0_fatal))")
            H.assert_(f"!({me} && f0_some) || ({same_as_prior} && jcalls == 0)", f"{m}: a recorded fault is returned again and no journal call is made")
            H.assert_(f"!({me} && f0_some) || ({H.lv(fault, 'd')} == 1 && {H.lv(fe, 'd')} == f0_kind)", f"{m}: the recorded fault is not replaced")
            if mut:
                H.assert_(f"!({me} && !f0_some && static0) || ({d} == {err} && {H.lv(e, 'd')} == {halt_i} && {H.lv(e, 'Halt.0.id')} == 77 && jcalls == 0 && "
                          f"{H.lv(fault, 'd')} == 1 && {H.lv(fe, 'd')} == {halt_i})", f"{m}: a mutation in a static context is refused with a halt before any journal call, and recorded")
            live = f"({me} && !f0_some" + (" && !static0" if mut else "") + ")"
            H.assert_(f"!{live} || (jcalls == 1 && jkind == {kind})", f"{m}: exactly one journal call, the journal-aware one for this method")
            H.assert_(f"!({live} && !jfails) || ({d} == {ok} && {H.lv(fault, 'd')} == 0)", f"{m}: success leaves no fault")
            H.assert_(f"!({live} && jfails) || ({d} == {err} && {H.lv(e, 'd')} == {fatal_i} && {H.lv(e, 'Fatal.0.id')} == 44 && {H.lv(fault, 'd')} == 1 && {H.lv(fe, 'd')} == {fatal_i})",
                      f"{m}: a journal error is returned as a fatal fault and recorded")
        H.cover("which == 3 && static0 && !f0_some", "sstore refused in a static context")
        H.cover("which == 2 && !static0 && !f0_some && !jfails", "set_balance succeeds")
        H.cover("f0_some && which == 1", "sload after a fault")
        return H
    return b


# ------------------------------------------------------------------------------------------------ h2
def exec_stubs():
    def db_mut(tr, c):
        c.ret(VRef(tr._c11_idb, []))

    def evm_deref(tr, c):
        c.ret(VRef(tr._c11_evm, []))

    def count(name, ret=None):
        def stub(tr, c):
            tr.emit(f"seq = seq * 8 + {name}; n_{ret or name}++;" if False else f"order[n_events < 8 ? n_events : 7] = {name}; n_events++;")
        return stub

    def run(tr, c):
        d = c.dest()
        n = d.node
        tr.emit(f"order[n_events < 8 ? n_events : 7] = 3; n_events++;")
        tr.emit(f"{tr.lv(Loc(n.discr, d.idxs))} = run_fails ? {n.vindex('Err')} : {n.vindex('Ok')};")
        e = n.variants[n.vindex('Err')][1].fields[0]
        tr.emit(f"{tr.lv(Loc(e.discr, d.idxs))} = {e.vindex('Custom')};")

    def into_spec(tr, c):
        d = c.dest()
        tr.emit(f"order[n_events < 8 ? n_events : 7] = 5; n_events++; {tr.lv(Loc(d.node.fields[0], d.idxs))} = 9;")

    def accesses(kind):
        def stub(tr, c):
            tr.emit(f"order[n_events < 8 ? n_events : 7] = {kind}; n_events++;")
        return stub
    unitv = lambda tr, c: c.ret(VUnit())
    return {"<Evm as DerefMut>::deref_mut": evm_deref, "<Evm as Deref>::deref": evm_deref, "<Context as ContextTr>::db_mut": db_mut,
            "IncarnationDb::begin_incarnation": count(1), "<Context as ContextSetters>::set_tx": count(2),
            "ReserveMode::from_planner": unitv, "GrevmHandler::new": unitv, "GrevmHandler::run": run,
            "<Evm as ExecuteEvm>::finalize": count(4), "GrevmHandlerOutput::into_speculative": into_spec,
            "SpeculativeResult::state": unitv, "IncarnationDb::finish_incarnation": accesses(6), "IncarnationDb::discard_incarnation": accesses(7),
            "<Level as PartialOrd>::le": sc.m_level_le}


def exec_cfg():
    import sched_common
    ov = sched_common.overrides()
    for k in ("GrevmEvm", "Evm", "Context", "IncarnationDb", "GrevmHandler", "GrevmHandlerOutput", "ReserveMode", "EvmState", "ResultAndState", "HashMap", "IncarnationAccesses"):
        ov[k] = revm_types.unit
    return {"type_overrides": ov, "stubs": exec_stubs(), "cap": 2, "noops": [r"^metrics::"], "dead_calls": sc.TRACING_DEAD,
            "opaque_types": [r"tracing", r"^<.* as .*>::"], "aliases": {"GrevmEvm": "Evm"}}


def build_h2():
    def b(tr):
        H = hz.Harness(tr, "c11_h2")
        H.cvar("order", "unsigned char", dims=[8], shared=False); H.cvar("n_events", "unsigned char", shared=False); H.cvar("run_fails", "_Bool", shared=False)
        H.c("n_events = 0; run_fails = nondet_bool();")
        for k in range(8):
            H.c(f"order[{k}] = 0;")
        ex = H.local("executor", "GrevmExecutor<DB>")
        tr._c11_idb = H.local("idb", "IncarnationDb<DB>")
        tr._c11_evm = H.local("evm_inner", "Context")
        tx = H.local("tx", "TxEnv")
        out = H.local("out", "IncarnationExecution<DBError>")
        H.call("<GrevmExecutor as ParallelTransactionExecutor>::execute_incarnation", [H.ref(ex), VAgg([H.val("1"), H.val("1")]), VLoc(Loc(tx, []))], out)
        seq_ok = "(order[0] == 1 && order[1] == 2 && order[2] == 3 && order[3] == 4 && order[4] == 5 && order[5] == 6 && n_events == 6)"
        seq_err = "(order[0] == 1 && order[1] == 2 && order[2] == 3 && order[3] == 4 && order[4] == 7 && n_events == 5)"
        H.assert_(f"run_fails || {seq_ok}", "successful attempt: begin_incarnation, set_tx, handler run, finalize, into_speculative, finish_incarnation -- each exactly once, in that order")
        H.assert_(f"!run_fails || {seq_err}", "failed attempt: begin_incarnation, set_tx, handler run, finalize, discard_incarnation -- the journal is finalized (emptied) "
                  "even when the attempt failed, so a discarded attempt leaves nothing behind in the reused EVM")
        rs = H.nav(out, "result")
        H.assert_(f"({H.lv(rs, 'd')} == {H.variant(rs, '', 'Err')}) == run_fails", "the attempt's result is the handler's result")
        H.cover("run_fails", "failed attempt"); H.cover("!run_fails", "successful attempt")
        return H
    return b


def specs(tier):
    return [Spec("h1_facade", build_h1(), cfg=cfg(), unwind=3, timeout=1800,
                 desc="real ParallelPrecompileState facade methods; revm's EvmInternals is a counting ghost", bounds={"methods": 4}),
            Spec("h2_attempt_lifecycle", build_h2(), cfg=exec_cfg(), unwind=3, timeout=1800,
                 desc="real GrevmExecutor::execute_incarnation call discipline with revm's Evm / handler / IncarnationDb as recording ghosts", bounds={}),
            Spec("h3_alloy_adapter", build_h3(), cfg=adapter_cfg(), unwind=3, timeout=1800,
                 desc="real adapter closure of DynParallelPrecompile::to_alloy: implementation = any result, facade fault = none / halt / fatal", bounds={})] + _c12_build_evm(tier)


def _c12_build_evm(tier):
    """the EVM construction helper shared by both execution paths registers every custom precompile once, at its address, through to_alloy"""
    import c12
    out = []
    for s_ in c12.specs(tier):
        if s_.name == "h4_build_evm":
            s_.name = "h4_build_evm_registers_precompiles"
            out.append(s_)
    return out


# ------------------------------------------------------------------------------------------------ h3: the Alloy adapter closure of to_alloy
def t_pinput(tr, ty, name, dims, storage, g=None):
    """alloy PrecompileInput: only `reservoir` is looked at by the adapter itself (the rest is moved into from_alloy)"""
    from translate import UnitN
    s = StructN(ty, name, dims, storage, "PrecompileInput")
    for nm in ("data", "gas"):           # field order of alloy's PrecompileInput: data, gas, reservoir, ... (index 2 is read by the adapter)
        s.fields.append(UnitN(None, name + "_" + nm, dims, storage)); s.names.append(nm)
    s.fields.append(ScalarN(None, name + "_reservoir", dims, storage, "u64"))
    s.names.append("reservoir")
    return s


def adapter_stubs():
    st = stubs()

    def from_alloy(tr, c):
        d = c.dest()
        stn = d.node.f("state")
        tr.emit(f"{tr.lv(Loc(stn.f('fault').discr, d.idxs))} = 0; {tr.lv(Loc(stn.f('is_static'), d.idxs))} = nondet_bool();")
        tr._c11_input = d

    def call(tr, c):
        """the user's implementation: any result; it may have hit a database fault / static refusal through the facade (recorded there)"""
        inp = tr.deref(c.args[1])
        fault = inp.node.f("state").f("fault")
        fe = fault.variants[fault.vindex("Some")][1].fields[0]
        hi, fi = fe.vindex("Halt"), fe.vindex("Fatal")
        tr.emit("impl_calls++;")
        tr.emit(f"if (facade_fault) {{ {tr.lv(Loc(fault.discr, inp.idxs))} = {fault.vindex('Some')}; {tr.lv(Loc(fe.discr, inp.idxs))} = fault_is_halt ? {hi} : {fi}; "
                f"{tr.lv(Loc(fe.variants[hi][1].fields[0].fields[0], inp.idxs))} = 31; {tr.lv(Loc(fe.variants[fi][1].fields[0].fields[0], inp.idxs))} = 44; }}")
        d = c.dest()
        n = d.node
        oki, erri = n.vindex("Ok"), n.vindex("Err")
        e = n.variants[erri][1].fields[0]
        tr.emit(f"if (impl_result == 0) {{ {tr.lv(Loc(n.discr, d.idxs))} = {oki}; {tr.lv(Loc(n.variants[oki][1].fields[0].fields[0], d.idxs))} = 5; }} else {{ "
                f"{tr.lv(Loc(n.discr, d.idxs))} = {erri}; {tr.lv(Loc(e.discr, d.idxs))} = (impl_result == 1) ? {e.vindex('Halt')} : {e.vindex('Fatal')}; "
                f"{tr.lv(Loc(e.variants[e.vindex('Halt')][1].fields[0].fields[0], d.idxs))} = 6; {tr.lv(Loc(e.variants[e.vindex('Fatal')][1].fields[0].fields[0], d.idxs))} = 7; }}")

    def halt(tr, c):
        d = c.dest()
        r = c.args[0]
        rl = r.loc if isinstance(r, VLoc) else tr.deref(r)
        tr.emit(f"halt_reservoir = {tr.as_scalar(c.args[1]).expr}; {tr.lv(Loc(d.node.fields[0], d.idxs))} = 100 + {tr.lv(Loc(rl.node.fields[0], rl.idxs))};")
    st.update({"ParallelPrecompileInput::from_alloy": from_alloy, "<DynParallelPrecompile as ParallelPrecompile>::call": call, "PrecompileOutput::halt": halt})
    return st


def adapter_cfg():
    c = cfg()
    c["stubs"] = adapter_stubs()
    c["type_overrides"]["PrecompileInput"] = t_pinput
    c["type_overrides"]["PrecompileOutput"] = t_opaque_id
    return c


def build_h3():
    def b(tr):
        H = hz.Harness(tr, "c11_h3")
        for nm, ct in (("jcalls", "unsigned char"), ("jkind", "unsigned char"), ("jfails", "_Bool"), ("maps", "unsigned char"), ("impl_calls", "unsigned char"),
                       ("impl_result", "unsigned char"), ("facade_fault", "_Bool"), ("fault_is_halt", "_Bool"), ("halt_reservoir", "u64"), ("rsv", "u64")):
            H.cvar(nm, ct, shared=False)
        H.c("jcalls = 0; jkind = 0; maps = 0; jfails = 0; impl_calls = 0; impl_result = nondet_uchar(); __CPROVER_assume(impl_result < 3); "
            "facade_fault = nondet_bool(); fault_is_halt = nondet_bool(); halt_reservoir = 0; rsv = nondet_usize();")
        clo = tr.closures.get(next(k for k in tr.closures if tr.closures[k].name.endswith("to_alloy::{closure#0}")))
        inp = H.local("ainput", "PrecompileInput")
        H.c(f"{H.lv(inp, 'reservoir')} = rsv;")
        res = H.local("ares", "Result<PrecompileOutput, PrecompileError>")
        envn = H.local("aenv", "(DynParallelPrecompile,)")
        tr.inline(clo, [VRef(envn, []), VLoc(Loc(inp, []))], Loc(res, []))
        ok, err = H.variant(res, "", "Ok"), H.variant(res, "", "Err")
        d = H.lv(res, "d")
        H.assert_("impl_calls == 1", "the implementation is called exactly once")
        # effective outcome: a fault recorded by the facade overrides WHATEVER the implementation returned
        H.assert_(f"!(facade_fault && !fault_is_halt) || ({d} == {err} && {H.lv(res, 'Err.0.id')} == 44)",
                  "a database fault recorded by the facade is the call's result (fatal: aborts the EVM run), whatever the implementation returned")
        H.assert_(f"!(facade_fault && fault_is_halt) || ({d} == {ok} && {H.lv(res, 'Ok.0.id')} == 100 + 31 && halt_reservoir == rsv)",
                  "a refusal recorded by the facade (static-context mutation) halts the call with that reason, whatever the implementation returned")
        H.assert_(f"!(!facade_fault && impl_result == 0) || ({d} == {ok} && {H.lv(res, 'Ok.0.id')} == 5)", "without a recorded fault a success is forwarded unchanged")
        H.assert_(f"!(!facade_fault && impl_result == 1) || ({d} == {ok} && {H.lv(res, 'Ok.0.id')} == 100 + 6 && halt_reservoir == rsv)", "... a halt becomes a halted output carrying the reservoir")
        H.assert_(f"!(!facade_fault && impl_result == 2) || ({d} == {err} && {H.lv(res, 'Err.0.id')} == 7)", "... a fatal error is returned as the EVM error")
        H.cover("facade_fault && !fault_is_halt && impl_result == 1", "database fault remapped to a halt by the implementation")
        H.cover("!facade_fault && impl_result == 1", "plain halt")
        return H
    return b
