"""Secondary engine: Kani proof harnesses over the compiled crate (in-crate, behind cfg(kani) hooks in /repo).
run(pid, harnesses, ...) -> result dicts in the same shape as run.py's CBMC results."""
import os
import re
import subprocess
import time

VERIF = os.path.dirname(os.path.dirname(os.path.abspath(__file__)))
REPO = os.environ.get("VERIF_REPO", "/repo")


def run(pid, harnesses, timeout=900, flags=("-Z", "stubbing"), desc=None):
    """one `cargo kani` invocation for all harnesses (shared incremental target dir, rebuilt from /repo's working tree)"""
    desc = desc or {}
    env = dict(os.environ, CARGO_NET_OFFLINE="true")
    tdir = os.path.join(VERIF, ".cache", "target-kani")
    cmd = ["cargo", "kani", "--lib", *flags, "--target-dir", tdir, "--output-format", "terse"]
    for h in harnesses:
        cmd += ["--harness", h]
    t0 = time.time()
    try:
        p = subprocess.run(["timeout", str(timeout)] + cmd, cwd=REPO, env=env, capture_output=True, text=True)
        out = p.stdout + p.stderr
        rc = p.returncode
    except Exception as e:          # noqa
        out, rc = str(e), 99
    wall = time.time() - t0
    results = []
    blocks = re.split(r"Checking harness ", out)
    seen = {}
    for b in blocks[1:]:
        name = b.split("...")[0].strip().split("::")[-1]
        seen[name] = b
    for h in harnesses:
        r = {"name": "kani_" + h, "desc": desc.get(h, "Kani proof harness " + h), "bounds": {"engine": "kani 0.68 / CBMC", "flags": " ".join(flags)},
             "status": "error", "props": 0, "wall_s": round(wall, 1), "functions": {"kani/c13_reserve.rs::" + h: "kani"}, "models": [], "noops": []}
        b = seen.get(h)
        if b is None:
            r["status"] = "inconclusive" if rc == 124 else "error"
            r["reason"] = ("kani timed out after %ds" % timeout) if rc == 124 else ("harness did not run: " + out[-600:])
            if rc == 124:
                r["inconclusive"] = [r["reason"]]
        else:
            m = re.search(r"\*\* (\d+) of (\d+) failed", b)
            if m:
                r["props"] = int(m.group(2))
            mt = re.search(r"Verification Time: ([0-9.]+)s", b)
            if mt:
                r["t_solver_s"] = float(mt.group(1))
            if "VERIFICATION:- SUCCESSFUL" in b:
                r["status"] = "ok"
                r["covers_total"] = r["covers_hit"] = 0
                mc = re.search(r"\*\* (\d+) of (\d+) cover properties satisfied", b)
                if mc:
                    r["covers_hit"], r["covers_total"] = int(mc.group(1)), int(mc.group(2))
                    if r["covers_hit"] < r["covers_total"]:
                        r["status"] = "inconclusive"
                        r["inconclusive"] = ["vacuity: cover properties not all satisfied"]
            elif "VERIFICATION:- FAILED" in b:
                failed = re.findall(r"Failed Checks: (.*)", b)
                soft = [f for f in failed if re.search(r"unwinding assertion|not currently supported|unsupported", f)]
                if failed and len(soft) == len(failed):
                    r["status"] = "inconclusive"
                    r["inconclusive"] = failed[:4]
                else:
                    r["status"] = "violation"
                    r["failed"] = [{"property": h, "description": (f.strip()[:200] or "assertion failed"), "trace": []} for f in (failed or ["assertion failed"])
                                   if not re.search(r"unwinding assertion|not currently supported", f)] or [{"property": h, "description": "assertion failed", "trace": []}]
                    # concrete playback: the solver's assignment as an ordinary Rust test (printed), kept with the replay
                    try:
                        pb = subprocess.run(["timeout", "600", "cargo", "kani", "--lib", *flags, "-Z", "concrete-playback", "--concrete-playback=print",
                                             "--target-dir", tdir, "--output-format", "terse", "--harness", h], cwd=REPO, env=env, capture_output=True, text=True)
                        mm = re.search(r"```\s*\n(.*?)```", pb.stdout, re.S)
                        r["failed"][0]["trace"] = (mm.group(1) if mm else pb.stdout[-3000:]).split("\n")[:120]
                    except Exception:
                        pass
            else:
                r["status"] = "error"
                r["reason"] = b[-600:]
        results.append(r)
    return results
