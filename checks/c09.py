"""C09  In-block code changes (CREATE, EIP-7702 set / re-point / clear) reach later transactions.

Real code (MIR -> C): incarnation_db.rs {<IncarnationDb as Database>::basic, code_by_address, finish_incarnation,
publish_writes}, model.rs {AccountBasic::from}.

  h1_publish_code : (= C08/h3_publish) Code is published iff the post-state has non-empty code that is present and
                    differs from the code hash recorded when the account was read (or nothing was read); Basic is
                    published with the code stripped; a code change alone publishes no storage-reset marker.
  h2_basic_read   : for ANY multi-version-memory content below the reader, basic(a) returns the latest preceding account
                    version (absent account included) else the backing account; its code comes from the latest
                    preceding Code version, else from the backing store BY THE HASH of the account that was resolved;
                    both locations enter the read set with the versions seen; estimate writers block; the snapshot used
                    later for change detection records exactly what was read.
  h3_roundtrip    : publish by tx 1 (set / re-point / clear code), then basic() by tx 2: exactly the post-state account
                    and code of tx 1 where it published, the older view elsewhere.
"""
from run import Spec
import harness as hz
from translate import Loc, VAgg, VRef, VScalar, VLoc, VUnit, TranslateError
import idb_common as ic
from idb_common import A, SL, KL
import c08

N = 3


def info_checks(H, res_info, src, what):
    """res_info: SNode AccountInfo (returned); src: dict of C exprs balance/nonce/code_hash"""
    for f in ("balance", "nonce", "code_hash"):
        H.assert_(f"{H.lv(res_info, f)} == {src[f]}", f"{what}: {f} of the returned account")


def build_h2(J=2):
    def b(tr):
        H = hz.Harness(tr, "c09_h2")
        ic.declare_db(H)
        idb, mv = c08.make_idb(H, tr, J)
        mvx = ic.MV(H, mv, N)
        mvx.havoc(J)
        a = 0
        kb, kc = a, 2 * A + a
        mvx.latest_below(kb, J, "b")
        mvx.latest_below(kc, J, "c")
        res = H.local("res", "Result<Option<AccountInfo>, DBError>")
        H.call("<IncarnationDb as Database>::basic", [H.ref(idb), H.val(str(a), "unsigned char")], res)
        H.assert_(f"{H.lv(res, 'd')} == {H.variant(res, '', 'Ok')}", "no database fault in this kernel")
        opt = H.nav(res, "Ok.0")
        some = f"({H.lv(opt, 'd')} == {H.variant(opt, '', 'Some')})"
        info = H.nav(opt, "Some.0")
        exp_some = f"(b_has ? {mvx.basic_some(kb, 'b_tx')} : db_exists[{a}])"
        H.assert_(f"{some} == {exp_some}", "basic(): existence comes from the latest preceding account version, else from the backing store")
        for f, dbf in (("balance", "db_balance"), ("nonce", "db_nonce"), ("code_hash", "db_code_hash")):
            H.assert_(f"!{some} || {H.lv(info, f)} == (b_has ? {mvx.basic_f(kb, 'b_tx', f)} : {dbf}[{a}])", f"basic(): {f} of the resolved account version")
        H.assert_(f"db_basic_reads == (b_has ? 0 : 1)", "the backing account is read exactly when no version precedes the reader")
        c08.check_read_version(H, idb, kb, "b_has", "b_tx", mvx, "the account")
        need_code = f"({some} && {H.lv(info, 'code_hash')} != 1)"
        code = H.nav(info, "code")
        cs = f"({H.lv(code, 'd')} == {H.variant(code, '', 'Some')})"
        H.assert_(f"{cs} == {need_code}", "the returned account carries code iff its code hash is not the empty hash")
        H.assert_(f"!{need_code} || {H.lv(code, 'Some.0.id')} == (c_has ? {mvx.code_id(kc, 'c_tx')} : (unsigned char)(100 + {H.lv(info, 'code_hash')}))",
                  "code comes from the latest preceding Code version, else from the backing store by the hash of the resolved account")
        H.assert_(f"db_code_reads == (({need_code} && !c_has) ? 1 : 0)", "code is fetched from the backing store only when needed and no Code version precedes the reader")
        H.assert_(f"{H.lv(idb, 'read_set.present.e', [kc])} == {need_code}", "the Code location enters the read set iff code was resolved")
        rs = H.nav(idb, "read_set.vals.e")
        H.assert_(f"!{need_code} || (c_has ? ({H.lv(rs, 'd', [kc])} == {H.variant(rs, '', 'MvMemory')} && {H.lv(rs, 'MvMemory.0.txid', [kc])} == c_tx && "
                  f"{H.lv(rs, 'MvMemory.0.incarnation', [kc])} == {mvx.inc(kc, 'c_tx')}) : {H.lv(rs, 'd', [kc])} == {H.variant(rs, '', 'Storage')})",
                  "the Code location is recorded with exactly the version read")
        for k in range(KL):
            if k not in (kb, kc):
                H.assert_(f"!{H.lv(idb, 'read_set.present.e', [k])}", f"no unrelated location (key {k}) enters the read set")
        bt = H.nav(idb, "blocking_txs.present")
        for t in range(bt.cap):
            want = f"((b_has && b_tx == {t} && {mvx.est(kb, t)}) || ({need_code} && c_has && c_tx == {t} && {mvx.est(kc, t)}))"
            H.assert_(f"{H.lv(idb, 'blocking_txs.present.e', [t])} == {want}", f"tx {t} blocks the reader iff it wrote an estimate that was read")
        sn = H.nav(idb, "account_snapshots")
        H.assert_(f"{H.lv(sn, 'present.e', [a])} == {some}", "a snapshot is kept iff an account was read")
        H.assert_(f"!{some} || ({H.lv(sn, 'vals.e.balance', [a])} == {H.lv(info, 'balance')} && {H.lv(sn, 'vals.e.nonce', [a])} == {H.lv(info, 'nonce')} && "
                  f"({H.lv(sn, 'vals.e.code_hash.d', [a])} == 1) == ({H.lv(info, 'code_hash')} != 1) && "
                  f"({H.lv(sn, 'vals.e.code_hash.d', [a])} != 1 || {H.lv(sn, 'vals.e.code_hash.Some.0', [a])} == {H.lv(info, 'code_hash')}))",
                  "the snapshot records the balance, nonce and code hash that were read")
        H.cover(f"b_has && {some} && c_has && {need_code}", "account version and code version both from multi-version memory")
        H.cover(f"b_has && !{some}", "an account deleted earlier in the block")
        H.cover(f"!b_has && {need_code} && !c_has", "backing account with code from the backing store")
        H.cover(f"!b_has && {need_code} && c_has", "backing account whose code was (re)set earlier in the block")
        return H
    return b


def build_h3(I=1):
    def b(tr):
        H = hz.Harness(tr, "c09_h3")
        ic.declare_db(H)
        idb, mv = c08.make_idb(H, tr, I, name="writer")
        mvx = ic.MV(H, mv, 2)
        mvx.havoc(I)
        ch = H.local("changes", "EvmState")
        acc = c08.havoc_changes(H, ch)
        sn = H.nav(idb, "account_snapshots")
        for a in range(A):
            H.c(f"{H.lv(sn, 'present.e', [a])} = nondet_bool(); {H.lv(sn, 'keys.e', [a])} = {a};")
            H.c(f"{H.lv(sn, 'vals.e.balance', [a])} = nondet_usize(); {H.lv(sn, 'vals.e.nonce', [a])} = nondet_usize(); "
                f"{H.lv(sn, 'vals.e.code_hash.d', [a])} = nondet_bool(); {H.lv(sn, 'vals.e.code_hash.Some.0', [a])} = nondet_usize();")
        # the writer's snapshot is what its own basic() read: the view below it.  Model that consistency for account 0.
        mvx.latest_below(0, I, "b0")
        mvx.latest_below(2 * A, I, "c0")
        H.cvar("old_some", "_Bool", shared=False)
        H.c(f"old_some = b0_has ? {mvx.basic_some(0, 'b0_tx')} : db_exists[0];")
        for f, dbf in (("balance", "db_balance"), ("nonce", "db_nonce"), ("code_hash", "db_code_hash")):
            H.cvar(f"old_{f}", ic.WIDE if f != "nonce" else "u64", shared=False)
            H.c(f"old_{f} = b0_has ? {mvx.basic_f(0, 'b0_tx', f)} : {dbf}[0];")
        H.cvar("old_code", "unsigned char", shared=False)
        H.c(f"old_code = c0_has ? {mvx.code_id(2 * A, 'c0_tx')} : (unsigned char)(100 + old_code_hash);")
        H.assume(f"{H.lv(sn, 'present.e', [0])} == old_some")
        H.assume(f"!old_some || ({H.lv(sn, 'vals.e.balance', [0])} == old_balance && {H.lv(sn, 'vals.e.nonce', [0])} == old_nonce && "
                 f"({H.lv(sn, 'vals.e.code_hash.d', [0])} == 1) == (old_code_hash != 1) && ({H.lv(sn, 'vals.e.code_hash.d', [0])} != 1 || {H.lv(sn, 'vals.e.code_hash.Some.0', [0])} == old_code_hash))")
        un, de, cr, up = c08.classify(H, acc, 0)
        inmap = H.lv(ch, "present.e", [0])
        # journal discipline assumed from revm: an account that ends with non-empty code carries that code in its info
        H.assume(f"!({inmap}) || {H.lv(acc, 'info.code_hash', [0])} == 1 || {H.lv(acc, 'info.code.d', [0])} == 1")
        # revm: an existing account only loses its code through an EIP-7702 authorisation, which also bumps its nonce
        # (publish_writes relies on it: a cleared code hash is propagated through the Basic entry, published on a nonce/balance change)
        H.assume(f"!(old_some && old_code_hash != 1 && {H.lv(acc, 'info.code_hash', [0])} == 1) || {H.lv(acc, 'info.nonce', [0])} != old_nonce")
        for nm, e in (("w_in", inmap), ("w_de", de), ("w_cr", cr), ("w_up", up), ("w_un", un)):
            H.cvar(nm, "_Bool", shared=False)
            H.c(f"{nm} = {e};")
        out = H.local("accesses", "IncarnationAccesses")
        H.call("IncarnationDb::finish_incarnation", [H.ref(idb), H.ref(ch)], out)
        rd, _ = c08.make_idb(H, tr, I + 1, name="reader")
        res = H.local("res", "Result<Option<AccountInfo>, DBError>")
        H.call("<IncarnationDb as Database>::basic", [H.ref(rd), H.val("0", "unsigned char")], res)
        opt = H.nav(res, "Ok.0")
        some = f"({H.lv(opt, 'd')} == {H.variant(opt, '', 'Some')})"
        info = H.nav(opt, "Some.0")
        live = "(w_in && (w_cr || w_up))"
        H.assert_(f"!(w_in && w_de) || !{some}", "an account deleted by the preceding transaction is absent")
        H.assert_(f"!{live} || ({some} && {H.lv(info, 'balance')} == {H.lv(acc, 'info.balance', [0])} && {H.lv(info, 'nonce')} == {H.lv(acc, 'info.nonce', [0])} && "
                  f"{H.lv(info, 'code_hash')} == {H.lv(acc, 'info.code_hash', [0])})", "a created/updated account is seen with exactly its post-state balance, nonce and code hash")
        H.assert_(f"!{live} || ({H.lv(info, 'code.d')} == 1) == ({H.lv(acc, 'info.code_hash', [0])} != 1)", "code present iff the post-state code hash is non-empty (cleared delegation -> no code)")
        H.assert_(f"!({live} && {H.lv(acc, 'info.code_hash', [0])} != 1) || {H.lv(info, 'code.Some.0.id')} == "
                  f"((!old_some || old_code_hash != {H.lv(acc, 'info.code_hash', [0])}) ? {H.lv(acc, 'info.code.Some.0.id', [0])} : old_code)",
                  "the code seen is the writer's post-state code when its hash changed (set / re-pointed), else the code that was already there")
        H.assert_(f"(w_in && !w_un) || ({some} == old_some && (!{some} || ({H.lv(info, 'balance')} == old_balance && {H.lv(info, 'nonce')} == old_nonce && {H.lv(info, 'code_hash')} == old_code_hash)))",
                  "an untouched account is seen as before")
        H.cover(f"{live} && old_some && old_code_hash != 1 && {H.lv(acc, 'info.code_hash', [0])} != 1 && old_code_hash != {H.lv(acc, 'info.code_hash', [0])}", "delegation re-pointed")
        H.cover(f"{live} && old_some && old_code_hash != 1 && {H.lv(acc, 'info.code_hash', [0])} == 1", "delegation cleared")
        H.cover(f"{live} && old_code_hash == 1 && {H.lv(acc, 'info.code_hash', [0])} != 1", "code set for the first time")
        return H
    return b


def specs(tier):
    out = []
    for s2 in c08.specs(tier):
        if s2.name == "h3_publish":
            s2.name = "h1_publish_code"
            out.append(s2)
    out.append(Spec("h2_basic_read", build_h2(2), cfg=ic.cfg(N), unwind=N + 2, timeout=2700,
                    desc="real IncarnationDb::basic + code_by_address over an arbitrary multi-version memory below the reader",
                    bounds={"n": N, "addresses": A, "slots": SL}))
    out.append(Spec("h3_roundtrip", build_h3(1), cfg=ic.cfg(2), unwind=max(A, SL) + 3, timeout=3600,
                    desc="publish by tx 1 (arbitrary journal account incl. code set / re-pointed / cleared), then basic() by tx 2",
                    bounds={"n": 2, "addresses": A, "slots": SL}))
    return out
