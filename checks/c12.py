"""C12  Delegated-CREATE guard halts exactly delegated-context creates, nothing else  (grevm's own decision logic).

Real code (MIR -> C): delegated_safety/instructions.rs {guarded_create<IS_CREATE2> for both instantiations, gravity_instructions},
delegated_safety/config.rs {DelegatedSafetyConfig::for_spec}.  revm's interpreter, host and contract::create are uninterpreted:
accessors return solver-chosen values, create is a counting ghost.

  h1_guard_create / h1_guard_create2 : over every static flag, fork, frame target address, bytecode address, and delegation /
        load-failure status of EVERY address: StateChangeDuringStaticCall, NotActivated (CREATE2 before Petersburg),
        FatalExternalError (load failure of the frame's TARGET), NotActivated (the frame's TARGET carries a delegation designator,
        whatever code the frame runs), else falls through to revm's create exactly once and returns its result -- in that priority.
  h2_table : gravity_instructions replaces exactly the handlers of opcodes CREATE (0xF0) and CREATE2 (0xF5) of revm's mainnet
        table for the spec, with the guard instantiated for the right opcode.
  h3_for_spec : the policy is the configured one from Prague on and fully disabled before, for every fork and flag pair.
Outside the claim: revm's contract::create and every other opcode; that build_evm swaps the table iff enabled (revm builder chain).
"""
from run import Spec
import harness as hz
from translate import Loc, VAgg, VRef, VScalar, VLoc, VUnit, VConst, TranslateError, StructN, RefN
import revm_types
import revm_models
import sched_common as sc
import c07

NA = 3   # abstract addresses


def t_ictx(tr, ty, name, dims, storage, g=None):
    """revm-interpreter InstructionContext { interpreter: &mut Interpreter, host: &mut H }"""
    s = StructN(ty, name, dims, storage)
    for f in ("interpreter", "host"):
        s.fields.append(RefN(None, f"{name}_{f}", dims, storage))
        s.names.append(f)
    return s


def t_interp(tr, ty, name, dims, storage, g=None):
    """revm-interpreter Interpreter: 8 fields (bytecode, gas, stack, return_data, memory, input, runtime_flag, extend), all opaque here"""
    from translate import UnitN
    s = StructN(ty, name, dims, storage)
    for f in ("bytecode", "gas", "stack", "return_data", "memory", "input", "runtime_flag", "extend"):
        s.fields.append(UnitN(None, f"{name}_{f}", dims, storage))
        s.names.append(f)
    return s


def stubs():
    order = c07.spec_order()

    def sc_ret(expr, ct):
        return lambda tr, c: c.ret(VScalar(expr, ct))

    def spec_id(tr, c):
        d = c.dest()
        tr.emit(f"{tr.lv(Loc(d.node.discr, d.idxs))} = spec_id;")

    def enabled_in(tr, c):
        def disc(v):
            loc = v.loc if isinstance(v, VLoc) else tr.deref(v)
            return tr.lv(Loc(loc.node.discr, loc.idxs))
        c.ret(VScalar(f"({disc(c.args[0])} >= {disc(c.args[1])})", "_Bool"))

    def load(tr, c):
        a = tr.as_scalar(c.args[1]).expr
        d = c.dest()
        n = d.node
        si, ni = n.vindex("Some"), n.vindex("None")
        sl = n.variants[si][1].fields[0]         # StateLoad<AccountLoad>
        tr.emit(f"__CPROVER_assume({a} < {NA}); loads++; loaded_addr = {a};")
        tr.emit(f"{tr.lv(Loc(n.discr, d.idxs))} = load_fails[{a}] ? {ni} : {si};")
        dc = sl.f("data").f("is_delegate_account_cold")
        tr.emit(f"{tr.lv(Loc(dc.discr, d.idxs))} = delegated[{a}] ? 1 : 0; {tr.lv(Loc(dc.variants[1][1].fields[0], d.idxs))} = nondet_bool();")
        tr.emit(f"{tr.lv(Loc(sl.f('data').f('is_empty'), d.idxs))} = nondet_bool(); {tr.lv(Loc(sl.f('is_cold'), d.idxs))} = nondet_bool();")

    def deref_load(tr, c):
        loc = tr.deref(c.args[0])
        c.ret(VRef(loc.node.f("data"), loc.idxs))

    def create(tr, c):
        d = c.dest()
        n = d.node
        tr.emit("create_calls++;")
        tr.emit(f"{tr.lv(Loc(n.discr, d.idxs))} = create_fails ? {n.vindex('Err')} : {n.vindex('Ok')};")
        e = n.variants[n.vindex('Err')][1].fields[0]
        tr.emit(f"{tr.lv(Loc(e.discr, d.idxs))} = {e.vindex('OutOfGas')};")

    def bytecode_address(tr, c):
        d = c.dest()
        n = d.node
        if n.kind == "enum":
            tr.emit(f"{tr.lv(Loc(n.discr, d.idxs))} = has_bytecode_addr ? {n.vindex('Some')} : {n.vindex('None')};")
            tr.store(Loc(n.variants[n.vindex('Some')][1].fields[0], d.idxs), VRef(tr._c12_bca, []))
        else:
            c.ret(VScalar("bytecode_addr", "unsigned char"))
    return {"<assoc as RuntimeFlag>::is_static": sc_ret("is_static", "_Bool"), "<assoc as RuntimeFlag>::spec_id": spec_id,
            "SpecId::is_enabled_in": enabled_in, "<assoc as InputsTr>::target_address": sc_ret("target", "unsigned char"),
            "<assoc as InputsTr>::caller_address": sc_ret("caller_addr", "unsigned char"),
            "<assoc as InputsTr>::bytecode_address": bytecode_address,
            "<H as Host>::load_account_delegated": load, "<StateLoad as Deref>::deref": deref_load,
            "revm::revm_interpreter::instructions::contract::create": create, "contract::create": create, "create": create,
            "<Level as PartialOrd>::le": sc.m_level_le}


def cfg(create2):
    ov = revm_types.base_overrides()
    ov.update(revm_models.type_overrides("unsigned char"))
    order = c07.spec_order()
    ov["SpecId"] = lambda tr, ty, name, dims, storage, g=None: tr.make_enum(ty, name, dims, storage, [(v, []) for v in order], g)
    ov["InstructionContext"] = t_ictx
    ov["Interpreter"] = t_interp
    for k in ("H", "WIRE", "CTX", "EthInterpreter"):
        ov[k] = revm_types.unit
    c = {"type_overrides": ov, "stubs": stubs(), "cap": 2, "noops": [r"^metrics::"], "dead_calls": sc.TRACING_DEAD,
         "opaque_types": [r"tracing", r"^<.* as .*>::"], "consts": dict(revm_models.consts(), IS_CREATE2=("1" if create2 else "0")),
         "extra_src": revm_models.extra_src_roots() + c12_src()}
    return c


def c12_src():
    import glob, os
    r = revm_models.registry_root()
    out = []
    for pat in ("revm-interpreter-37*/src", "revm-context-interface-19*/src"):
        out += [p for p in glob.glob(os.path.join(r, pat)) if os.path.isdir(p)]
    return out


def build_h1(create2):
    def b(tr):
        H = hz.Harness(tr, "c12_h1")
        for nm, ct in (("is_static", "_Bool"), ("spec_id", "unsigned char"), ("target", "unsigned char"), ("caller_addr", "unsigned char"), ("bytecode_addr", "unsigned char"),
                       ("has_bytecode_addr", "_Bool"), ("loads", "unsigned char"), ("loaded_addr", "unsigned char"), ("create_calls", "unsigned char"), ("create_fails", "_Bool")):
            H.cvar(nm, ct, shared=False)
        H.cvar("load_fails", "_Bool", dims=[NA], shared=False); H.cvar("delegated", "_Bool", dims=[NA], shared=False)
        nspec = len(c07.spec_order())
        H.c(f"is_static = nondet_bool(); spec_id = nondet_uchar(); __CPROVER_assume(spec_id < {nspec}); target = nondet_uchar(); __CPROVER_assume(target < {NA});")
        H.c(f"caller_addr = nondet_uchar(); __CPROVER_assume(caller_addr < {NA}); bytecode_addr = nondet_uchar(); __CPROVER_assume(bytecode_addr < {NA}); has_bytecode_addr = nondet_bool();")
        H.c("loads = 0; loaded_addr = 99; create_calls = 0; create_fails = nondet_bool();")
        for a in range(NA):
            H.c(f"load_fails[{a}] = nondet_bool(); delegated[{a}] = nondet_bool();")
        bca = H.local("bca_cell", "Address")
        H.c(f"{H.lv(bca)} = bytecode_addr;")
        tr._c12_bca = bca
        interp = H.local("interp", "Interpreter<WIRE>")
        host = H.local("host", "H")
        ctx = H.local("ictx", "InstructionContext<H, WIRE>")
        tr.store(Loc(H.nav(ctx, "interpreter"), []), VRef(interp, []))
        tr.store(Loc(H.nav(ctx, "host"), []), VRef(host, []))
        res = H.local("res", "Result<(), InstructionResult>")
        H.call("guarded_create", [VLoc(Loc(ctx, []))], res)
        order = c07.spec_order()
        pet = order.index("PETERSBURG")
        d = H.lv(res, "d")
        ok, err = H.variant(res, "", "Ok"), H.variant(res, "", "Err")
        e = H.nav(res, "Err.0")
        ev = lambda n: f"({d} == {err} && {H.lv(e, 'd')} == {H.variant(e, '', n)})"
        c1 = "is_static"
        c2 = f"(!is_static && {1 if create2 else 0} && spec_id < {pet})"
        c3 = f"(!{c1} && !{c2} && load_fails[target])"
        c4 = f"(!{c1} && !{c2} && !load_fails[target] && delegated[target])"
        H.assert_(f"!{c1} || ({ev('StateChangeDuringStaticCall')} && create_calls == 0 && loads == 0)", "static context: refused before any account load or create")
        H.assert_(f"!{c2} || ({ev('NotActivated')} && create_calls == 0)", "CREATE2 before Petersburg: NotActivated, as stock revm")
        H.assert_(f"!{c3} || ({ev('FatalExternalError')} && create_calls == 0)", "the target's account cannot be loaded: FatalExternalError")
        H.assert_(f"!{c4} || ({ev('NotActivated')} && create_calls == 0)", "the frame's TARGET carries a delegation designator: the create halts as not-activated, whatever bytecode the frame runs")
        H.assert_(f"({c1} || {c2} || {c3} || {c4}) || (create_calls == 1 && ({d} == {ok}) == !create_fails && ({d} == {ok} || {ev('OutOfGas')}))",
                  "every other frame falls through to revm's create exactly once and returns its result unchanged")
        H.assert_(f"loads == 0 || loaded_addr == target", "the delegation lookup is made for the frame's target address")
        H.cover(f"{c4} && bytecode_addr != target", "delegated target running another account's code (delegatecall / callcode shape)")
        H.cover("create_calls == 1 && delegated[bytecode_addr] && bytecode_addr != target", "ordinary target running a delegated account's code falls through")
        H.cover(f"{c3}", "load failure")
        return H
    return b


def build_h3():
    def b(tr):
        H = hz.Harness(tr, "c12_h3")
        cfgv = H.local("cfgv", "DelegatedSafetyConfig")
        spec = H.local("spec", "SpecId")
        out = H.local("out", "DelegatedSafetyConfig")
        nspec = len(c07.spec_order())
        H.c(f"{H.lv(cfgv, 'forbid_delegated_create')} = nondet_bool(); {H.lv(cfgv, 'reserve_delegated_balance')} = nondet_bool(); {H.lv(spec, 'd')} = nondet_uchar(); __CPROVER_assume({H.lv(spec, 'd')} < {nspec});")
        H.call("DelegatedSafetyConfig::for_spec", [VLoc(Loc(cfgv, [])), VLoc(Loc(spec, []))], out)
        pr = c07.spec_order().index("PRAGUE")
        for f in ("forbid_delegated_create", "reserve_delegated_balance"):
            H.assert_(f"{H.lv(out, f)} == ({H.lv(spec, 'd')} >= {pr} && {H.lv(cfgv, f)})", f"{f}: configured value from Prague on, off before")
        H.cover(f"{H.lv(out, 'forbid_delegated_create')}", "guard active")
        H.cover(f"{H.lv(spec, 'd')} < {pr} && {H.lv(cfgv, 'forbid_delegated_create')}", "configured but pre-Prague")
        return H
    return b


# ------------------------------------------------------------------------------------------------ h4: build_evm (table swap + precompile registration)
NP = 2      # custom precompiles (bound)


def stubs4():
    st = stubs()
    unitv = lambda tr, c: c.ret(VUnit())

    def build(tr, c):
        d = c.dest()
        tr.emit(f"{tr.lv(Loc(d.node.f('instruction'), d.idxs))} = 1; {tr.lv(Loc(d.node.f('precompiles'), d.idxs))} = 0; builds++;")

    def with_precompiles(tr, c):
        d = c.dest()
        src = c.args[0].loc if isinstance(c.args[0], VLoc) else tr.deref(c.args[0])
        tr.emit(f"{tr.lv(Loc(d.node.f('instruction'), d.idxs))} = {tr.lv(Loc(src.node.f('instruction'), src.idxs))};")
        tr.store(Loc(d.node.f('precompiles'), d.idxs), c.args[1])

    def ident(tr, c):
        c.ret(c.args[0])

    def from_spec(tr, c):
        v = c.args[0]
        loc = v.loc if isinstance(v, VLoc) else None
        e = tr.lv(Loc(loc.node.discr, loc.idxs)) if loc is not None and loc.node.kind == "enum" else tr.as_scalar(v).expr
        c.ret(VScalar(f"((unsigned char)(50 + {e}))", "unsigned char"))

    def pc_new(tr, c):
        """Precompiles::new(spec) -> &'static Precompiles: one static cell holding the spec tag"""
        cell = tr._c12_pcs
        tr.emit(f"{tr.lv(Loc(cell, []))} = {tr.as_scalar(c.args[0]).expr};")
        c.ret(VRef(cell, []))

    def from_static(tr, c):
        c.ret(VScalar(tr.as_scalar(VLoc(tr.deref(c.args[0]))).expr, "unsigned char"))

    def gravity(tr, c):
        v = c.args[0]
        loc = v.loc if isinstance(v, VLoc) else None
        e = tr.lv(Loc(loc.node.discr, loc.idxs)) if loc is not None and loc.node.kind == "enum" else tr.as_scalar(v).expr
        tr.emit("gravity_calls++;")
        c.ret(VScalar(f"((unsigned char)(100 + {e}))", "unsigned char"))

    def to_alloy(tr, c):
        c.ret(VScalar(f"((unsigned char)(200 + {tr.as_scalar(VLoc(tr.deref(c.args[0]))).expr}))", "unsigned char"))

    def apply(tr, c):
        a = tr.as_scalar(VLoc(tr.deref(c.args[1]))).expr
        cl = c.args[2]
        if isinstance(cl, VAgg):
            cap = tr.as_scalar(cl.fields[0]).expr
        else:
            loc = cl.loc if isinstance(cl, VLoc) else tr.deref(cl)
            cap = tr.lv(Loc(loc.node.fields[0], loc.idxs))
        tr.emit(f"if (applied_n < {NP}) {{ applied_addr[applied_n] = {a}; applied_src[applied_n] = {cap}; }} applied_n++;")
    st.update({"<Context as MainContext>::mainnet": unitv, "Context::with_db": unitv, "Context::with_cfg": unitv, "Context::with_block": unitv,
               "<Context as MainBuilder>::build_mainnet_with_inspector": build, "PrecompileSpecId::from_spec_id": from_spec, "Precompiles::new": pc_new,
               "PrecompilesMap::from_static": from_static, "Evm::with_precompiles": with_precompiles, "gravity_instructions": gravity,
               "DynParallelPrecompile::to_alloy": to_alloy, "PrecompilesMap::apply_precompile": apply})
    return st


def t_evm(tr, ty, name, dims, storage, g=None):
    """revm-context Evm { ctx, inspector, instruction, precompiles, frame_stack }: the instruction table and the precompile set are tags"""
    from translate import UnitN, ScalarN
    s_ = StructN(ty, name, dims, storage)
    for f, k in (("ctx", "u"), ("inspector", "u"), ("instruction", "s"), ("precompiles", "s"), ("frame_stack", "u")):
        s_.fields.append(UnitN(None, f"{name}_{f}", dims, storage) if k == "u" else ScalarN(None, f"{name}_{f}", dims, storage, "unsigned char"))
        s_.names.append(f)
    return s_


def cfg4():
    c = cfg(False)
    ov = c["type_overrides"]
    ov.pop("CfgEnv", None)          # the real field list (spec is read from it)
    ov["SPEC"] = ov["SpecId"]
    ov["Evm"] = t_evm
    for k in ("Context", "BlockEnv", "NoOpInspector", "GasParams", "EthPrecompiles", "EthFrame", "FrameStack", "DB"):
        ov[k] = revm_types.unit
    for k in ("EthInstructions", "PrecompilesMap", "Precompiles", "PrecompileSpecId", "DynParallelPrecompile", "DynPrecompile"):
        ov[k] = revm_types.scalar("unsigned char")
    c["stubs"] = stubs4()
    c["cap"] = NP
    c["loops"] = {"build_evm": {"*": (NP + 1, "assert")}}
    return c


def build_h4():
    def b(tr):
        H = hz.Harness(tr, "c12_h4")
        for nm in ("builds", "gravity_calls", "applied_n", "spec_id"):
            H.cvar(nm, "unsigned char", shared=False)
        H.cvar("applied_addr", "unsigned char", dims=[NP], shared=False); H.cvar("applied_src", "unsigned char", dims=[NP], shared=False)
        H.cvar("forbid", "_Bool", shared=False)
        nspec = len(c07.spec_order())
        H.c(f"builds = 0; gravity_calls = 0; applied_n = 0; forbid = nondet_bool(); spec_id = nondet_uchar(); __CPROVER_assume(spec_id < {nspec});")
        db = H.local("db", "DB"); blk = H.local("blk", "BlockEnv")
        tr._c12_pcs = H.local("pcs_static", "Precompiles")
        cf = H.local("cf", "CfgEnv")
        H.c(f"{H.lv(cf, 'spec.d')} = spec_id;")
        lst = H.local("customs", "Vec<(Address, DynParallelPrecompile)>")
        H.c(f"{H.lv(lst, 'len')} = nondet_usize(); __CPROVER_assume({H.lv(lst, 'len')} <= {NP});")
        for k in range(NP):
            H.c(f"{H.lv(lst, 'e.0', [k])} = nondet_uchar(); __CPROVER_assume({H.lv(lst, 'e.0', [k])} < {NA}); {H.lv(lst, 'e.1', [k])} = nondet_uchar(); __CPROVER_assume({H.lv(lst, 'e.1', [k])} < 20);")
        evm = H.local("evm", "Evm<CTX, INSP, I, P, F>")
        H.call("build_evm", [VLoc(Loc(db, [])), VLoc(Loc(cf, [])), VLoc(Loc(blk, [])), H.ref(lst), H.val("forbid", "_Bool")], evm)
        pr = c07.spec_order().index("PRAGUE")
        H.assert_(f"{H.lv(evm, 'instruction')} == ((forbid && spec_id >= {pr}) ? (unsigned char)(100 + spec_id) : 1)",
                  "the instruction table is the guarded one (built for the block's spec) iff the guard is requested and the spec is Prague or later; otherwise revm's mainnet table untouched")
        H.assert_(f"gravity_calls == ((forbid && spec_id >= {pr}) ? 1 : 0) && builds == 1", "one EVM is built; the guarded table is constructed only when it is installed")
        H.assert_(f"{H.lv(evm, 'precompiles')} == (unsigned char)(50 + spec_id)", "the standard precompile set is the one of the block's spec")
        H.assert_(f"applied_n == {H.lv(lst, 'len')}", "every custom precompile is registered exactly once")
        for k in range(NP):
            H.assert_(f"!({k} < {H.lv(lst, 'len')}) || (applied_addr[{k}] == {H.lv(lst, 'e.0', [k])} && applied_src[{k}] == (unsigned char)(200 + {H.lv(lst, 'e.1', [k])}))",
                      f"custom precompile {k} is registered at its own address through the to_alloy adapter of its own implementation, in list order")
        H.cover(f"{H.lv(evm, 'instruction')} != 1 && applied_n == 2", "guarded table with two custom precompiles")
        H.cover(f"forbid && spec_id < {pr}", "guard requested before Prague")
        return H
    return b


def specs(tier):
    return [
        Spec("h1_guard_create", build_h1(False), cfg=cfg(False), unwind=3, timeout=1800,
             desc="real guarded_create::<false> (CREATE) decision table; interpreter / host / revm create uninterpreted", bounds={"addresses": NA, "forks": "all"}),
        Spec("h1_guard_create2", build_h1(True), cfg=cfg(True), unwind=3, timeout=1800,
             desc="real guarded_create::<true> (CREATE2) decision table", bounds={"addresses": NA, "forks": "all"}),
        Spec("h3_for_spec", build_h3(), cfg=cfg(False), unwind=3, timeout=1800,
             desc="real DelegatedSafetyConfig::for_spec for every fork and flag pair", bounds={"forks": "all"}),
        Spec("h4_build_evm", build_h4(), cfg=cfg4(), unwind=NP + 2, timeout=1800,
             desc="real build_evm: instruction table swapped iff guard requested and spec >= Prague; standard precompiles of the spec; every custom precompile registered once at its address via to_alloy (revm builder chain = tagging ghosts)",
             bounds={"forks": "all", "custom_precompiles": NP, "addresses": NA}),
    ]
