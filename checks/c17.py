"""C17  Coordinator notifications are never lost.

Real code: MIR of src/scheduler/wait.rs (WaitSlot::{register_current_thread, notify, wait_while}) and, in the
scheduler-level harness, Scheduler::cancel / is_aborted (control.rs) with the commit loop's real wait predicate.

Model of the std parker (stated in evidence): one token per thread; unpark sets it, park consumes it; park has NO
timeout: it completes when the token is present, or -- so that a lost wake-up is a reachable assertion failure instead of
a silently blocked path -- when every thread that could still unpark has finished, in which case the token must be
there (assertion LOST-WAKEUP).

  h1_slot      : waiter { register; loop(<=R) { if cond: break; wait_while(|| !cond) } }  ||  notifier A { cond = 1; notify }
                 || notifier B { notify }           (B = a stale/spurious notification, at any point incl. before registration)
  h2_two_conds : the waiter needs two publications (two notifiers, each publishes its flag then notifies)
  h7_validate_notifies_parked_finality : (= C02/wake_VG) the real next -> validate with a ghost finality-coordinator pass (finalise head, examine the new
                 head, park if it is not ready) injected atomically at every visible operation: the validation that publishes head k as
                 Unconfirmed notifies a coordinator that parked on k (validate reads the finality index only after publishing and unlocking).
  h3_cancel    : waiter uses the real commit-loop predicate (!is_aborted() && commit_idx >= finality_idx) on a real
                 Scheduler; notifiers: real Scheduler::cancel(), and publish_finality + commit_wait.notify()
"""
from run import Spec
import harness as hz
from translate import Loc, VAgg, VRef, VPyClosure, VScalar


def build_h1(rounds=3, spurious=True, two_conds=False):
    def b(tr):
        H = hz.Harness(tr, "c17_h1")
        slot = H.shared("slot", "WaitSlot")
        H.cvar("condA", "_Bool"); H.cvar("condB", "_Bool"); H.cvar("returned", "_Bool"); H.cvar("wakeups", "unsigned char")
        H.c(f"{H.lv(slot, 'thread.set')} = 0; condA = 0; condB = 0; returned = 0; g_parks = 0;")
        for t in range(5):
            H.c(f"g_park_token[{t}] = 0;")
        need = "(condA && condB)" if two_conds else "condA"

        def pred(tr_, args, dest):
            # blocked() == !cond   (one atomic read of the published state)
            tr_.emit("__CPROVER_atomic_begin();")
            tr_.emit(f"{tr_.lv(dest)} = !{need};")
            tr_.emit("__CPROVER_atomic_end();")
        w = H.thread("waiter"); H.enter(w)
        H.call("WaitSlot::register_current_thread", [H.ref(slot)])
        H.cvar("wr", "int", shared=False)
        H.cvar("seen", "_Bool", shared=False)
        H.c(f"for (wr = 0; wr < {rounds}; wr++) {{")
        H.c(f"__CPROVER_atomic_begin(); seen = {need}; __CPROVER_atomic_end();")
        H.c("if (seen) break;")
        H.call("WaitSlot::wait_while", [H.ref(slot), hz.VUnit(), VPyClosure(pred)])
        H.c("}")
        H.c(f"__CPROVER_atomic_begin(); seen = {need}; __CPROVER_atomic_end();")
        # each wake-up without the condition consumes one notification; with k notifiers at most k-1 useless rounds
        H.assert_("seen", "the waiter leaves its wait loop with the condition true within (notifications) rounds")
        H.c("returned = 1;")
        a = H.thread("notifierA"); H.enter(a)
        H.c("__CPROVER_atomic_begin(); condA = 1; __CPROVER_atomic_end();")
        H.call("WaitSlot::notify", [H.ref(slot)])
        if spurious or two_conds:
            bth = H.thread("notifierB"); H.enter(bth)
            if two_conds:
                H.c("__CPROVER_atomic_begin(); condB = 1; __CPROVER_atomic_end();")
            H.call("WaitSlot::notify", [H.ref(slot)])
        H.post()
        H.assert_("returned", "waiter returned")
        H.cover("g_parks >= 1", "the waiter really parked at least once")
        H.cover("g_parks == 0", "the waiter never needed to park")
        return H
    return b


def sched_overrides():
    import models
    unit = models.t_unit
    return {k: (lambda tr, ty, name, dims, storage, _u=unit: _u(tr, ty, name, dims, storage, {})) for k in
            ("CfgEnv", "BlockEnv", "ParallelState", "TxExecutionOutcome", "TxEnv", "GrevmConfig", "ReservePlanner",
             "DynParallelPrecompile", "Address", "MVMemory", "DashMap", "TransactionResult", "AbortReason",
             "ExecuteMetricsCollector", "DB")}


def build_h3():
    def b(tr):
        H = hz.Harness(tr, "c17_h3")
        S = H.shared("S", "Scheduler<DB>")
        H.cvar("returned", "_Bool")
        H.c(f"{H.lv(S, 'commit_wait.thread.set')} = 0; {H.lv(S, 'finality_wait.thread.set')} = 0; returned = 0; g_parks = 0;")
        H.c(f"{H.lv(S, 'abort')} = 0; {H.lv(S, 'scheduler_ctx.finality')} = 0;")
        for t in range(5):
            H.c(f"g_park_token[{t}] = 0;")
        H.param("mode", "unsigned char")
        H.c("mode = nondet_uchar();")
        w = H.thread("waiter"); H.enter(w)
        H.call("WaitSlot::register_current_thread", [H.ref(S, "commit_wait")])
        # the commit loop's own predicate: closure#0 of run_commit_loop captures (&self, &commit_idx)
        ci = H.local("commit_idx", "usize")
        H.c(f"{H.lv(ci)} = 0;")
        clo = tr.closures.get(next(k for k in tr.closures if "scheduler.rs" in k and tr.closures[k].name.endswith("run_commit_loop::{closure#0}")))
        env = VAgg([VRef(S, []), VRef(ci, [])])
        envn = tr.alloc_like(env, "cenv", tr.cur.storage)
        envn.ty = tr.parse_ty(clo.locals[1].lstrip("&").replace("mut ", "", 1).strip())
        tr.store(Loc(envn, []), env)
        H.cvar("wr", "int", shared=False); H.cvar("seen", "_Bool", shared=False)
        H.c("for (wr = 0; wr < 3; wr++) {")
        H.c(f"__CPROVER_atomic_begin(); seen = {H.lv(S, 'abort')} || {H.lv(S, 'scheduler_ctx.finality')} > 0; __CPROVER_atomic_end();")
        H.c("if (seen) break;")
        H.call("WaitSlot::wait_while", [H.ref(S, "commit_wait"), hz.VUnit(), hz.VLoc(Loc(envn, []))])
        H.c("}")
        H.c(f"__CPROVER_atomic_begin(); seen = {H.lv(S, 'abort')} || {H.lv(S, 'scheduler_ctx.finality')} > 0; __CPROVER_atomic_end();")
        H.assert_("seen", "commit waiter leaves its wait loop once aborted or finality advanced")
        H.c("returned = 1;")
        a = H.thread("canceller"); H.enter(a)
        H.c("if (mode & 1) {")
        H.call("Scheduler::cancel", [H.ref(S)])
        H.c("}")
        f = H.thread("finality"); H.enter(f)
        H.c("if (!(mode & 1) || (mode & 2)) {")
        H.call("SchedulerContext::publish_finality", [H.ref(S, "scheduler_ctx"), H.val("1")])
        H.call("WaitSlot::notify", [H.ref(S, "commit_wait")])
        H.c("}")
        H.post()
        H.assert_("returned", "waiter returned")
        H.cover("g_parks >= 1", "the waiter really parked")
        H.cover("(mode & 3) == 3", "both cancel and finality notification present")
        return H
    return b


def build_h4(N, late_validator=False):
    """real run_finality_loop || real run_commit_loop (commit itself is a ghost that always succeeds) from the state in
    which every transaction is executed and validated; with late_validator the last transaction is still Validating and a
    worker finishes it with the real validate() (which notifies the finality coordinator).  Parks have no timeout."""
    import sched_common as sc
    import c04

    def b(tr):
        H = hz.Harness(tr, "c17_h4")
        S = H.shared("S", "Scheduler<DB>")
        sc.freeze_sched(H, S, N)
        CM = H.shared("committer", "OrderedCommitter<DB>")
        H.cvar("plan", "unsigned char", dims=[N]); H.cvar("commit_calls", "usize"); H.cvar("fin_seen_max", "usize")
        H.c(f"commit_calls = 0; fin_seen_max = {N}; g_parks = 0;")
        for t in range(6):
            H.c(f"g_park_token[{t}] = 0;")
        sc.init_sched(H, S, N)
        sc.init_ctx(H, S, N)
        sc.init_tx_tables(H, S, N, L=1)
        H.c(f"{H.lv(S, 'results.data.len')} = 0; {H.lv(S, 'results.locked')} = 0;")
        stn = H.nav(S, "tx_states.e.data.status")
        trn = H.nav(S, "tx_results.e.data")
        er = H.nav(trn, "Some.0.execute_result")
        last = N - 1
        for i in range(N):
            st = "Validating" if (late_validator and i == last) else "Unconfirmed"
            H.c(f"plan[{i}] = 0; {H.lv(S, 'tx_states.e.data.status.d', [i])} = {H.variant(stn, '', st)}; {H.lv(S, 'tx_states.e.data.incarnation', [i])} = 1;")
            H.c(f"{H.lv(trn, 'd', [i])} = 1; {H.lv(er, 'd', [i])} = 0; {H.lv(er, 'Ok.0.id', [i])} = {10 + i};")
            H.c(f"{H.lv(trn, 'Some.0.read_set.present.e', [i, 0])} = 0; {H.lv(trn, 'Some.0.write_set.present.e', [i, 0])} = 0;")
            if not (late_validator and i == last):
                H.c(f"{H.lv(S, 'scheduler_ctx.unconfirmed_timestamps.e', [i])} = {i + 1};")
            H.c(f"{H.lv(S, 'scheduler_ctx.execution_frontier.executed.e', [i])} = 1;")
        H.c(f"{H.lv(S, 'scheduler_ctx.logical_clock')} = {N + 2}; {H.lv(S, 'scheduler_ctx.validation')} = {N}; {H.lv(S, 'scheduler_ctx.execution_frontier.frontier')} = {N}; {H.lv(S, 'tx_dependency.index')} = {N};")
        f = H.thread("finality"); H.enter(f)
        H.call("Scheduler::run_finality_loop", [H.ref(S)])
        cthr = H.thread("commit"); H.enter(cthr)
        clr = H.shared("clr", "CommitLoopResult<DBError>")
        H.call("Scheduler::run_commit_loop", [H.ref(S), H.ref(CM)], clr)
        if late_validator:
            w = H.thread("worker"); H.enter(w)
            t2 = H.local("t2", "Option<Task>")
            H.call("Scheduler::validate", [H.ref(S), hz.VUnit(), VAgg([H.val(str(last)), H.val("1")])], t2)
        H.post()
        H.assert_(f"{H.lv(S, 'scheduler_ctx.committed')} == {N} && {H.lv(S, 'scheduler_ctx.finality')} == {N}", "both coordinators finished the whole block without relying on a timeout")
        H.assert_(f"commit_calls == {N} && !{H.lv(S, 'abort')}", "every transaction committed once, no abort")
        H.cover("g_parks >= 1", "a coordinator really parked")
        H.cover("g_parks >= 2", "coordinators parked twice")
        return H
    return b


def lfc_stub(N):
    def stub(tr, c):
        """Scheduler::lock_finality_candidate -> ghost for the notification skeleton: every transaction below N is ready;
        the returned guard is bound to a thread-private dummy TxState (no shared-memory traffic)"""
        import itermodels
        from rtypes import parse_type
        from models import REG
        d = c.dest()
        fidx = tr.as_scalar(c.args[1]).expr
        lower = tr.as_scalar(c.args[2]).expr
        tr.tmpn += 1
        dm = tr.alloc(parse_type("Mutex<TxState>"), f"dummy_tx{tr.tmpn}", [], tr.cur.storage)
        tr.emit(f"{tr.lv(Loc(dm.f('locked'), []))} = 0; {tr.lv(Loc(dm.f('data').f('status').discr, []))} = 4; "
                f"{tr.lv(Loc(dm.f('data').f('incarnation'), []))} = 1; {tr.lv(Loc(dm.f('data').f('dependency').discr, []))} = 0;")
        n = d.node
        si, ni = n.vindex("Some"), n.vindex("None")
        tup = n.variants[si][1].fields[0]
        tr.emit(f"if ({fidx} < {N}) {{ {tr.lv(Loc(n.discr, d.idxs))} = {si}; {tr.lv(Loc(tup.fields[1], d.idxs))} = {lower};")
        REG.lookup("Mutex::lock")(tr, itermodels.ICtx(tr, c.inst, "Mutex::lock", [VRef(dm, [])], Loc(tup.fields[0], d.idxs)))
        tr.emit(f"}} else {{ {tr.lv(Loc(n.discr, d.idxs))} = {ni}; }}")
    return stub


def h4_cfg(N, late, skeleton=True):
    import sched_common as sc
    import c04
    stubs = dict(sc.bene_true_stubs())
    stubs["OrderedCommitter::commit"] = c04.commit_stub(N)
    if skeleton and not late:
        stubs["Scheduler::lock_finality_candidate"] = lfc_stub(N)
        stubs["TxDependency::commit"] = lambda tr, c: None
    c = sc.mv_cfg(N, L=1, stubs=stubs)
    # tid 1 = finality, 2 = commit, 3 = worker.  A parked coordinator can only be woken by the other roles.
    c["park_hook"] = park_hook(late)
    c["loops"] = {"Scheduler::run_finality_loop": {"*": (N + 3, "assume")}, "Scheduler::run_commit_loop": {"*": (N + 3, "assume")},
                  "Scheduler::validate": {"*": (3, "assert")}, "WaitSlot::wait_while": {"*": (3, "assume")}}
    return c


def park_hook(late):
    def hook(tr, c):
        tid = tr.cur.tid
        others = {1: "g_done[2]" + (" && g_done[3]" if late else ""), 2: "g_done[1]" + (" && g_done[3]" if late else ""), 3: "0"}[tid]
        tr.emit("__CPROVER_atomic_begin();")
        tr.emit(f"__CPROVER_assume(g_park_token[{tid}] || ({others}));")
        tr.emit(f'__CPROVER_assert(g_park_token[{tid}], "LOST-WAKEUP: coordinator parked with no token and every possible notifier finished (only the stall timeout would wake it)");')
        tr.emit(f"g_park_token[{tid}] = 0; g_parks++;")
        tr.emit("__CPROVER_atomic_end();")
    return hook


def build_h6(N):
    """producer side of the finality -> commit hand-off on the REAL run_finality_loop (single role): whenever the loop goes to
    sleep or returns, every finality publication it made has been followed by a commit_wait notification.  The candidate lock is a
    ghost that declares a solver-chosen number of transactions ready per visit, so every batch shape (1, 2, 3, ... at once) occurs."""
    import sched_common as sc

    def b(tr):
        H = hz.Harness(tr, "c17_h6")
        S = H.local("S", "Scheduler<DB>")
        sc.freeze_sched(H, S, N)
        sc.init_sched(H, S, N)
        sc.init_ctx(H, S, N)
        sc.init_tx_tables(H, S, N, L=1)
        H.cvar("ready_upto", "usize", shared=False); H.cvar("unnotified", "_Bool", shared=False); H.cvar("sleeps", "unsigned char", shared=False)
        H.cvar("published", "usize", shared=False)
        H.c("ready_upto = nondet_usize(); __CPROVER_assume(ready_upto <= %d); unnotified = 0; sleeps = 0; published = 0;" % N)
        for t in range(4):
            H.c(f"g_park_token[{t}] = 0;")
        H.call("Scheduler::run_finality_loop", [H.ref(S)])
        H.assert_("!unnotified", "when the finality loop returns, its last publication has been announced to the commit coordinator")
        H.assert_(f"published == {N} || {H.lv(S, 'abort')}", "the loop only returns when the block is final or aborted")
        H.cover("sleeps >= 1", "the loop slept at least once")
        H.cover(f"published == {N}", "whole block finalised")
        return H
    return b


def h6_cfg(N):
    import sched_common as sc

    def lfc(tr, c):
        """lock_finality_candidate ghost: transactions below ready_upto are ready (guard on a thread-private dummy state)"""
        import itermodels
        from rtypes import parse_type
        from models import REG
        d = c.dest()
        fidx = tr.as_scalar(c.args[1]).expr
        lower = tr.as_scalar(c.args[2]).expr
        tr.tmpn += 1
        dm = tr.alloc(parse_type("Mutex<TxState>"), f"dummy_tx{tr.tmpn}", [], tr.cur.storage)
        tr.emit(f"{tr.lv(Loc(dm.f('locked'), []))} = 0; {tr.lv(Loc(dm.f('data').f('status').discr, []))} = 4; "
                f"{tr.lv(Loc(dm.f('data').f('incarnation'), []))} = 1; {tr.lv(Loc(dm.f('data').f('dependency').discr, []))} = 0;")
        n = d.node
        si, ni = n.vindex("Some"), n.vindex("None")
        tup = n.variants[si][1].fields[0]
        tr.emit(f"if ({fidx} < {N} && {fidx} < ready_upto) {{ {tr.lv(Loc(n.discr, d.idxs))} = {si}; {tr.lv(Loc(tup.fields[1], d.idxs))} = {lower};")
        REG.lookup("Mutex::lock")(tr, itermodels.ICtx(tr, c.inst, "Mutex::lock", [VRef(dm, [])], Loc(tup.fields[0], d.idxs)))
        tr.emit(f"}} else {{ {tr.lv(Loc(n.discr, d.idxs))} = {ni}; }}")

    def publish(tr, c):
        v = tr.as_scalar(c.args[1]).expr
        tr.emit(f"S_scheduler_ctx_finality_0_v = {v}; published = {v}; unnotified = 1;")

    def notify(tr, c):
        slot = tr.deref(c.args[0])
        # which slot?  commit_wait notifications announce finality publications; finality_wait ones are irrelevant here
        tr.emit("unnotified = 0;" if "commit_wait" in slot.node.name else "/* finality_wait.notify */")

    def wait(tr, c):
        """the finality coordinator goes to sleep: everything it published must have been announced; the environment then makes more
        transactions ready (or aborts the run)"""
        tr.emit('__CPROVER_assert(!unnotified, "PROP every finality publication is followed by a commit notification before the finality loop sleeps (no lost hand-off)");')
        tr.emit("sleeps++; __CPROVER_assume(sleeps <= 3);")
        tr.emit(f"if (nondet_bool()) {{ S_abort_v = 1; }} else {{ usize nr = nondet_usize(); __CPROVER_assume(nr > ready_upto && nr <= {N}); ready_upto = nr; }}")
    stubs = dict(sc.bene_true_stubs())
    stubs.update({"Scheduler::lock_finality_candidate": lfc, "SchedulerContext::publish_finality": publish, "WaitSlot::notify": notify,
                  "WaitSlot::wait_while": wait, "WaitSlot::register_current_thread": lambda tr, c: None})
    c = sc.mv_cfg(N, L=1, stubs=stubs)
    c["loops"] = {"Scheduler::run_finality_loop": {"*": (N + 6, "assert")}, "ExecutionFrontier::advance": {"*": (N + 2, "assume")}}
    return c


def specs(tier):
    done12 = "g_done[2] && g_done[3]"
    out = [
        Spec("h1_slot_spurious", build_h1(3, spurious=True), cfg={"notifiers_done_expr": done12}, unwind=5, timeout=1800,
             desc="real WaitSlot register/wait_while/notify: waiter loop || publishing notifier || stale notifier; park has no timeout",
             bounds={"threads": 3, "wait_rounds": 3, "memory_model": "SC"}),
        Spec("h2_two_conditions", build_h1(3, two_conds=True), cfg={"notifiers_done_expr": done12}, unwind=5, timeout=1800,
             desc="waiter needs two publications from two notifiers (each publishes, then notifies)",
             bounds={"threads": 3, "wait_rounds": 3}),
        Spec("h3_commit_predicate_cancel", build_h3(), cfg={"notifiers_done_expr": done12, "type_overrides": sched_overrides()},
             unwind=5, timeout=1800,
             desc="real commit-loop wait predicate on a real Scheduler || real cancel() || publish_finality+notify",
             bounds={"threads": 3, "wait_rounds": 3}),
        Spec("h6_finality_announces_n3", build_h6(3), cfg=h6_cfg(3), unwind=11, timeout=1800,
             desc="producer side on the real run_finality_loop: every publication is followed by a commit notification before the loop sleeps or returns "
                  "(every batch shape; ghost candidate lock, ghost wait = environment step)", bounds={"n": 3, "sleeps": 3}),
    ]
    if tier != "experimental":
        import c02
        for s_ in c02.specs(tier):
            if s_.name == "wake_VG_n3":
                s_.name = "h7_validate_notifies_parked_finality"
                out.append(s_)
    if tier == "experimental":
        out.append(Spec("h4_finality_commit_n2", build_h4(2), cfg=h4_cfg(2, False), unwind=6, timeout=14000,
                        desc="real run_finality_loop || real run_commit_loop (ghost commit, ghost candidate lock) over 2 validated transactions: "
                             "every publication the commit coordinator needs is followed by a notification; parks have no timeout",
                        bounds={"n": 2, "threads": 2, "memory_model": "SC"}))
        out.append(Spec("h4_finality_commit_n3", build_h4(3), cfg=h4_cfg(3, False), unwind=7, timeout=7200,
                        desc="as h4 with 3 transactions", bounds={"n": 3, "threads": 2}))
        out.append(Spec("h5_validate_finality_commit_n2", build_h4(2, True), cfg=h4_cfg(2, True), unwind=6, timeout=7200,
                        desc="worker finishing the last validation (real validate, notifies finality) || finality loop || commit loop",
                        bounds={"n": 2, "threads": 3}))
    return out
