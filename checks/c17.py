"""C17  Coordinator notifications are never lost.

Real code: MIR of src/scheduler/wait.rs (WaitSlot::{register_current_thread, notify, wait_while}) and, in the
scheduler-level harness, Scheduler::cancel / is_aborted (control.rs) with the commit loop's real wait predicate.

Model of the std parker (stated in evidence): one token per thread; unpark sets it, park consumes it; park has NO
timeout: it completes when the token is present, or -- so that a lost wake-up is a reachable assertion failure instead of
a silently blocked path -- when every thread that could still unpark has finished, in which case the token must be
there (assertion LOST-WAKEUP).

  h1_slot      : waiter { register; loop(<=R) { if cond: break; wait_while(|| !cond) } }  ||  notifier A { cond = 1; notify }
                 || notifier B { notify }           (B = a stale/spurious notification, at any point incl. before registration)
  h2_two_conds : the waiter needs two publications (two notifiers, each publishes its flag then notifies)
  h3_cancel    : waiter uses the real commit-loop predicate (!is_aborted() && commit_idx >= finality_idx) on a real
                 Scheduler; notifiers: real Scheduler::cancel(), and publish_finality + commit_wait.notify()
"""
from run import Spec
import harness as hz
from translate import Loc, VAgg, VRef, VPyClosure, VScalar


def build_h1(rounds=3, spurious=True, two_conds=False):
    def b(tr):
        H = hz.Harness(tr, "c17_h1")
        slot = H.shared("slot", "WaitSlot")
        H.cvar("condA", "_Bool"); H.cvar("condB", "_Bool"); H.cvar("returned", "_Bool"); H.cvar("wakeups", "unsigned char")
        H.c(f"{H.lv(slot, 'thread.set')} = 0; condA = 0; condB = 0; returned = 0; g_parks = 0;")
        for t in range(5):
            H.c(f"g_park_token[{t}] = 0;")
        need = "(condA && condB)" if two_conds else "condA"

        def pred(tr_, args, dest):
            # blocked() == !cond   (one atomic read of the published state)
            tr_.emit("__CPROVER_atomic_begin();")
            tr_.emit(f"{tr_.lv(dest)} = !{need};")
            tr_.emit("__CPROVER_atomic_end();")
        w = H.thread("waiter"); H.enter(w)
        H.call("WaitSlot::register_current_thread", [H.ref(slot)])
        H.cvar("wr", "int", shared=False)
        H.cvar("seen", "_Bool", shared=False)
        H.c(f"for (wr = 0; wr < {rounds}; wr++) {{")
        H.c(f"__CPROVER_atomic_begin(); seen = {need}; __CPROVER_atomic_end();")
        H.c("if (seen) break;")
        H.call("WaitSlot::wait_while", [H.ref(slot), hz.VUnit(), VPyClosure(pred)])
        H.c("}")
        H.c(f"__CPROVER_atomic_begin(); seen = {need}; __CPROVER_atomic_end();")
        # each wake-up without the condition consumes one notification; with k notifiers at most k-1 useless rounds
        H.assert_("seen", "the waiter leaves its wait loop with the condition true within (notifications) rounds")
        H.c("returned = 1;")
        a = H.thread("notifierA"); H.enter(a)
        H.c("__CPROVER_atomic_begin(); condA = 1; __CPROVER_atomic_end();")
        H.call("WaitSlot::notify", [H.ref(slot)])
        if spurious or two_conds:
            bth = H.thread("notifierB"); H.enter(bth)
            if two_conds:
                H.c("__CPROVER_atomic_begin(); condB = 1; __CPROVER_atomic_end();")
            H.call("WaitSlot::notify", [H.ref(slot)])
        H.post()
        H.assert_("returned", "waiter returned")
        H.cover("g_parks >= 1", "the waiter really parked at least once")
        H.cover("g_parks == 0", "the waiter never needed to park")
        return H
    return b


def sched_overrides():
    import models
    unit = models.t_unit
    return {k: (lambda tr, ty, name, dims, storage, _u=unit: _u(tr, ty, name, dims, storage, {})) for k in
            ("CfgEnv", "BlockEnv", "ParallelState", "TxExecutionOutcome", "TxEnv", "GrevmConfig", "ReservePlanner",
             "DynParallelPrecompile", "Address", "MVMemory", "DashMap", "TransactionResult", "AbortReason",
             "ExecuteMetricsCollector", "DB")}


def build_h3():
    def b(tr):
        H = hz.Harness(tr, "c17_h3")
        S = H.shared("S", "Scheduler<DB>")
        H.cvar("returned", "_Bool")
        H.c(f"{H.lv(S, 'commit_wait.thread.set')} = 0; {H.lv(S, 'finality_wait.thread.set')} = 0; returned = 0; g_parks = 0;")
        H.c(f"{H.lv(S, 'abort')} = 0; {H.lv(S, 'scheduler_ctx.finality')} = 0;")
        for t in range(5):
            H.c(f"g_park_token[{t}] = 0;")
        H.param("mode", "unsigned char")
        H.c("mode = nondet_uchar();")
        w = H.thread("waiter"); H.enter(w)
        H.call("WaitSlot::register_current_thread", [H.ref(S, "commit_wait")])
        # the commit loop's own predicate: closure#0 of run_commit_loop captures (&self, &commit_idx)
        ci = H.local("commit_idx", "usize")
        H.c(f"{H.lv(ci)} = 0;")
        clo = tr.closures.get(next(k for k in tr.closures if "scheduler.rs" in k and tr.closures[k].name.endswith("run_commit_loop::{closure#0}")))
        env = VAgg([VRef(S, []), VRef(ci, [])])
        envn = tr.alloc_like(env, "cenv", tr.cur.storage)
        envn.ty = tr.parse_ty(clo.locals[1].lstrip("&").replace("mut ", "", 1).strip())
        tr.store(Loc(envn, []), env)
        H.cvar("wr", "int", shared=False); H.cvar("seen", "_Bool", shared=False)
        H.c("for (wr = 0; wr < 3; wr++) {")
        H.c(f"__CPROVER_atomic_begin(); seen = {H.lv(S, 'abort')} || {H.lv(S, 'scheduler_ctx.finality')} > 0; __CPROVER_atomic_end();")
        H.c("if (seen) break;")
        H.call("WaitSlot::wait_while", [H.ref(S, "commit_wait"), hz.VUnit(), hz.VLoc(Loc(envn, []))])
        H.c("}")
        H.c(f"__CPROVER_atomic_begin(); seen = {H.lv(S, 'abort')} || {H.lv(S, 'scheduler_ctx.finality')} > 0; __CPROVER_atomic_end();")
        H.assert_("seen", "commit waiter leaves its wait loop once aborted or finality advanced")
        H.c("returned = 1;")
        a = H.thread("canceller"); H.enter(a)
        H.c("if (mode & 1) {")
        H.call("Scheduler::cancel", [H.ref(S)])
        H.c("}")
        f = H.thread("finality"); H.enter(f)
        H.c("if (!(mode & 1) || (mode & 2)) {")
        H.call("SchedulerContext::publish_finality", [H.ref(S, "scheduler_ctx"), H.val("1")])
        H.call("WaitSlot::notify", [H.ref(S, "commit_wait")])
        H.c("}")
        H.post()
        H.assert_("returned", "waiter returned")
        H.cover("g_parks >= 1", "the waiter really parked")
        H.cover("(mode & 3) == 3", "both cancel and finality notification present")
        return H
    return b


def specs(tier):
    done12 = "g_done[2] && g_done[3]"
    out = [
        Spec("h1_slot_spurious", build_h1(3, spurious=True), cfg={"notifiers_done_expr": done12}, unwind=5, timeout=600,
             desc="real WaitSlot register/wait_while/notify: waiter loop || publishing notifier || stale notifier; park has no timeout",
             bounds={"threads": 3, "wait_rounds": 3, "memory_model": "SC"}),
        Spec("h2_two_conditions", build_h1(3, two_conds=True), cfg={"notifiers_done_expr": done12}, unwind=5, timeout=600,
             desc="waiter needs two publications from two notifiers (each publishes, then notifies)",
             bounds={"threads": 3, "wait_rounds": 3}),
        Spec("h3_commit_predicate_cancel", build_h3(), cfg={"notifiers_done_expr": done12, "type_overrides": sched_overrides()},
             unwind=5, timeout=600,
             desc="real commit-loop wait predicate on a real Scheduler || real cancel() || publish_finality+notify",
             bounds={"threads": 3, "wait_rounds": 3}),
    ]
    return out
