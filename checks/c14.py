"""C14  A scheduler executes its block at most once.

Real code: MIR of control.rs {execute, parallel_execute (+closure), run_once (+closure)} and fallback.rs
{fallback_sequential (+closure)}.  The two block bodies -- Scheduler::parallel_execute_inner and
Scheduler::replay_uncommitted_suffix -- are bound to ghosts that count runs and are the only code that touches
outcomes/state, so "exactly one body ran, every other call returned the only-once error" is the whole property.

  h1_race      : 2-3 threads, each calls a solver-chosen public entry point (execute / parallel_execute(None|Some k) /
                 fallback_sequential), all interleavings
  h2_sequence  : 3 successive calls with solver-chosen entry points on one thread
"""
from run import Spec
import harness as hz
from translate import Loc, VAgg, VRef, VScalar
import revm_types


def stubs(kinds):
    def body(kind):
        def stub(tr, c):
            # the ghost body: records the run and returns a solver-chosen result
            d = c.dest()
            tr.emit("__CPROVER_atomic_begin();")
            tr.emit(f"body_runs++; body_kind = {kind}; body_result = nondet_bool();")
            tr.emit("__CPROVER_atomic_end();")
            n = d.node
            oki, erri = n.vindex("Ok"), n.vindex("Err")
            tr.emit(f"{tr.lv(Loc(n.discr, d.idxs))} = body_result ? {oki} : {erri};")
            e = n.variants[erri][1].fields[0]       # GrevmError { txid, error }
            tr.emit(f"{tr.lv(Loc(e.f('txid'), d.idxs))} = 77;")
            tr.emit(f"{tr.lv(Loc(e.f('error').discr, d.idxs))} = {e.f('error').vindex('Database')};")
        return stub
    return {"Scheduler::parallel_execute_inner": body(1), "Scheduler::replay_uncommitted_suffix": body(2)}


def init_sched(H, S, N):
    H.c(f"{H.lv(S, 'started')} = 0; {H.lv(S, 'abort')} = 0; {H.lv(S, 'block_size')} = {N};")
    H.c(f"{H.lv(S, 'scheduler_ctx.committed')} = 0; {H.lv(S, 'scheduler_ctx.validation_resets')} = 0;")
    # Scheduler::new_with_runtime_config asserts concurrency_level > 0
    H.c(f"{H.lv(S, 'config.concurrency_level')} = nondet_usize(); __CPROVER_assume({H.lv(S, 'config.concurrency_level')} >= 1);")


def entry_call(H, S, sel, res, conc_level):
    """dispatch on the solver-chosen selector to one of the real public entry points"""
    H.c(f"if ({sel} == 0) {{")
    H.call("Scheduler::execute", [H.ref(S)], res)
    H.c(f"}} else if ({sel} == 1) {{")
    H.call("Scheduler::parallel_execute", [H.ref(S), VAgg([H.val(conc_level)], variant="Some")], res)
    H.c(f"}} else if ({sel} == 2) {{")
    H.call("Scheduler::fallback_sequential", [H.ref(S)], res)
    H.c("} else {")
    H.call("Scheduler::parallel_execute", [H.ref(S), VAgg([], variant="None")], res)
    H.c("}")


def check_results(H, S, results, N, ncalls):
    only_once = revm_types.intern('"a Scheduler can execute only once; create a new Scheduler for each block"')
    H.assert_("body_runs == 1", "exactly one entry call ran the block body")
    H.cvar("winners", "unsigned char", shared=False)
    H.c("winners = 0;")
    for r in results:
        d = H.lv(r, "d")
        ok, err = H.variant(r, "", "Ok"), H.variant(r, "", "Err")
        e = H.nav(r, "Err.0")
        txid = H.lv(e, "txid")
        ed = H.lv(e, "error.d")
        custom = H.variant(e, "error", "Custom")
        tag = H.lv(e, "error.Custom.0.tag")
        loser = f"({d} == {err} && {ed} == {custom} && {tag} == {only_once})"
        H.c(f"if (!{loser}) winners++;")
        H.assert_(f"!{loser} || {txid} == 0", "the only-once error names min(committed, block_size-1) = 0")
        H.assert_(f"{loser} || ({d} == {ok} ? body_result : (!body_result && {txid} == 77))",
                  "a call that is not refused returns exactly the body's result")
    H.assert_("winners == 1", "exactly one call is not refused with the only-once error")
    H.assert_(f"{H.lv(S, 'started')}", "started flag set")


def build_race(N, nthreads):
    def b(tr):
        H = hz.Harness(tr, "c14_race")
        S = H.shared("S", "Scheduler<DB>")
        H.cvar("body_runs", "unsigned char"); H.cvar("body_kind", "unsigned char"); H.cvar("body_result", "_Bool")
        H.c("body_runs = 0; body_kind = 0; body_result = 0;")
        init_sched(H, S, N)
        # config.concurrency_level is read by parallel_execute(None)
        res = []
        for k in range(nthreads):
            H.param(f"sel{k}", "unsigned char")
            H.c(f"sel{k} = nondet_uchar(); __CPROVER_assume(sel{k} < 4);")
            res.append(H.shared(f"res{k}", "Result<(), GrevmError<DBError>>"))
        for k in range(nthreads):
            t = H.thread(f"caller{k}"); H.enter(t)
            entry_call(H, S, f"sel{k}", res[k], "2")
        H.post()
        check_results(H, S, res, N, nthreads)
        H.cover("body_kind == 1", "the parallel body won")
        H.cover("body_kind == 2", "the sequential body won")
        H.cover("body_result == 0", "the winning body failed")
        return H
    return b


def build_seq(N, ncalls):
    def b(tr):
        H = hz.Harness(tr, "c14_seq")
        S = H.local("S", "Scheduler<DB>")
        H.cvar("body_runs", "unsigned char", shared=False); H.cvar("body_kind", "unsigned char", shared=False)
        H.cvar("body_result", "_Bool", shared=False)
        H.c("body_runs = 0; body_kind = 0; body_result = 0;")
        init_sched(H, S, N)
        res = []
        for k in range(ncalls):
            H.cvar(f"sel{k}", "unsigned char", shared=False)
            H.c(f"sel{k} = nondet_uchar(); __CPROVER_assume(sel{k} < 4);")
            res.append(H.local(f"res{k}", "Result<(), GrevmError<DBError>>"))
            entry_call(H, S, f"sel{k}", res[k], "1")
            if k == 0:
                H.assert_("body_runs == 1", "the first call runs the body")
        check_results(H, S, res, N, ncalls)
        d0 = H.lv(res[0], "d")
        H.assert_(f"({d0} == {H.variant(res[0], '', 'Ok')}) == body_result", "the first call is the winner")
        H.cover("body_kind == 2 && sel1 != 2", "sequential first, then a parallel entry refused")
        return H
    return b


def cfg():
    ov = revm_types.sched_light_overrides()
    import models
    ov["GrevmConfig"] = None
    del ov["GrevmConfig"]
    ov["DelegatedSafetyConfig"] = revm_types.unit
    return {"type_overrides": ov, "stubs": stubs(None), "cap": 2,
            "panic_ok": []}


def specs(tier):
    out = [
        Spec("h1_race_2", build_race(2, 2), cfg=cfg(), unwind=3, timeout=1800,
             desc="2 threads each call a solver-chosen real entry point (execute / parallel_execute(Some|None) / "
                  "fallback_sequential); block bodies are counting ghosts",
             bounds={"threads": 2, "memory_model": "SC"}),
        Spec("h1_race_3", build_race(2, 3), cfg=cfg(), unwind=3, timeout=2700,
             desc="3 racing callers", bounds={"threads": 3}),
        Spec("h2_sequence_3", build_seq(2, 3), cfg=cfg(), unwind=3, timeout=1800,
             desc="3 successive calls with solver-chosen entry points", bounds={"calls": 3}),
    ]
    return out
