"""C16  A blocked transaction is always re-offered once its blocker resolves.

Real code: MIR of src/tx_dependency.rs (next / add / remove / commit / key_tx) + PublishedCursor (cursor.rs) + the REAL
Scheduler::execution_task (scheduler.rs) on a real Scheduler's tx_states (status, incarnation, state mutex): the status
dispatch of a cursor claim / direct hand-off, including the duplicate-claim release `remove(v, false)`.
Ghosts: ph[i] (0 queued, 1 executing, 2 done) abstracts the status class (tied to the real status in the pre-state, kept in
step by every role); the executors' finishing actions (what execute_task / validate do with the graph: add / remove / key_tx
followed by the status publication under the state lock) are scripted roles over the real TxDependency calls;
la[i] = blocker last installed by i's own executor; cd = number of commit() calls made.

Method: ONE INDUCTIVE STEP WITH CONCURRENCY INSIDE.  The pre-state is an arbitrary (solver-chosen) state satisfying
the representation invariant INV below; two or three scheduler roles then run concurrently (all interleavings), each
performing one complete action of the kind the scheduler performs (finish an execution with success / blocked by a
predecessor / retry without blocker / error barrier; claim through the cursor; commit); at quiescence INV must hold
again.  A separate sequential harness shows INV => every unfinished transaction completes (no orphan).  Histories of
any length follow by induction; a counterexample from a pre-state no history reaches means INV is too weak and is
strengthened (it is not reported).

INV (for every tx i):
  (e) queued => onboard                     (f) onboard, no blocker (any phase) => cursor <= i
  (g) queued, blocker d<i => reverse edge d->i present and d is live (executing, or onboard and itself reachable)
      queued, blocker i (own commit boundary) => committed < i
  (h) queued, last installed blocker d not done, commit(i-1) not yet performed => still blocked by d   [no stale release]
  (c,d) executing or done => no blocker     (i) reverse edges point forward   (b) i < committed => done;  locks free
"""
from run import Spec
import harness as hz
from translate import Loc, VAgg, VRef, VUnit
from c15 import snapshot
import sched_common as sc

ST = {"Initial": 0, "Executing": 1, "Executed": 2, "Validating": 3, "Unconfirmed": 4, "Conflict": 5, "Finality": 6}


def lock_rank_hook(N):
    def hook(tr, m, lk):
        name = m.node.name
        ix = m.idxs[-1] if m.idxs else "0"
        if "affect_txs" in name:
            rank = f"({ix})"
        elif "dependent_state" in name:
            rank = f"({N} + {ix})"
        else:
            return
        st = tr.cur.storage
        if "held_n" not in st.names:
            st.declare("usize", "held", [4])
            st.declare("unsigned char", "held_n", [])
            tr.cur.lines.insert(0, "  held_n = 0;")
        tr.emit(f'__CPROVER_assert(held_n == 0 || {rank} > held[held_n - 1], "PROP lock order: ranks strictly ascending (no deadlock by lock order)");')
        tr.emit(f'__CPROVER_assert(held_n < 4, "BOUND lock nesting depth"); held[held_n] = {rank}; held_n++;')

    def unhook(tr, m):
        name = m.node.name
        if ("affect_txs" in name or "dependent_state" in name) and "held_n" in tr.cur.storage.names:
            tr.emit("held_n--;")
    return hook, unhook


class K:
    """code generator shared by the harnesses"""

    def __init__(self, H, N, S=None):
        self.H, self.N, self.S = H, N, S
        self.uid = 0

    def status(self, i):
        return self.H.lv(self.S, "tx_states.e.data.status.d", [i])

    def tlk(self, i):
        return self.H.lv(self.S, "tx_states.e.locked", [i])

    def tie_status(self, PH, executors=()):
        """the real per-transaction status (scheduler.rs / model.rs) behind the ghost phase: any status of the phase's class"""
        H, N = self.H, self.N
        for i in range(N):
            H.c(f"{self.status(i)} = nondet_uchar(); {self.tlk(i)} = 0; {H.lv(self.S, 'tx_states.e.data.incarnation', [i])} = nondet_usize();")
            H.c(f"__CPROVER_assume({H.lv(self.S, 'tx_states.e.data.incarnation', [i])} < 1000);")
            H.assume(f"{self.status(i)} <= 6 && ({PH}[{i}] == 0) == ({self.status(i)} == {ST['Initial']} || {self.status(i)} == {ST['Conflict']}) && "
                     f"({PH}[{i}] == 1) == ({self.status(i)} == {ST['Executing']})")

    def freeze(self, D):
        H, N = self.H, self.N
        H.freeze(D, "num_txs", f"((usize){N})")
        H.freeze(D, "dependent_state.len", f"((usize){N})")
        H.freeze(D, "affect_txs.len", f"((usize){N})")
        if self.S is not None and not getattr(self, "_frozen", False):
            self._frozen = True
            sc.freeze_sched(H, self.S, N)

    def acc(self, D, C):
        H = self.H
        return dict(
            onb=lambda i: H.lv(D, "dependent_state.e.data.onboard", [i]),
            dd=lambda i: H.lv(D, "dependent_state.e.data.dependency.d", [i]),
            dv=lambda i: H.lv(D, "dependent_state.e.data.dependency.Some.0", [i]),
            aff=lambda i, j: H.lv(D, "affect_txs.e.data.present.e", [i, j]),
            lk1=lambda i: H.lv(D, "dependent_state.e.locked", [i]),
            lk2=lambda i: H.lv(D, "affect_txs.e.locked", [i]),
            idx=H.lv(D, "index"), com=H.lv(C, "0"))

    def inv(self, D, C, PH, LA, CD, emit, allow_executing):
        """emit(cond, msg) for every clause of INV"""
        N = self.N
        a = self.acc(D, C)
        onb, dd, dv, aff, idx, com = a["onb"], a["dd"], a["dv"], a["aff"], a["idx"], a["com"]
        emit(f"{idx} <= {N + 2} && {com} <= {N} && {CD} == {com}", "cursor and committed boundary in range")
        for i in range(N):
            emit(f"!{a['lk1'](i)} && !{a['lk2'](i)}", f"locks of {i} free")
            emit(f"{PH}[{i}] <= 2" if allow_executing else f"{PH}[{i}] == 0 || {PH}[{i}] == 2", f"phase of {i}")
            emit(f"{dd(i)} <= 1 && ({dd(i)} == 0 || {dv(i)} <= {i})", f"blocker of {i} is a predecessor or itself")
            emit(f"{LA}[{i}] == {N} || {LA}[{i}] < {i}", f"last blocker of {i} is a strict predecessor")
            emit(f"!({i} < {com}) || {PH}[{i}] == 2", f"committed tx {i} is done")
            emit(f"!({dd(i)} == 1) || {onb(i)}", f"(c) a blocked tx {i} is onboard (only unblocked txs are taken off board)")
            emit(f"!({PH}[{i}] == 0) || {onb(i)}", f"(e) queued tx {i} is onboard")
            emit(f"!({onb(i)} && {dd(i)} == 0) || {idx} <= {i}", f"(f) onboard unblocked tx {i} is at or after the cursor")
            emit(f"!({dd(i)} == 1 && {dv(i)} == {i}) || {com} < {i}",
                 f"(g) own-boundary barrier of {i} only while the committed prefix is below it")
            for d in range(i):
                live = f"({PH}[{d}] == 1 || ({onb(d)} && ({dd(d)} == 1 || {idx} <= {d})))"
                emit(f"!({dd(i)} == 1 && {dv(i)} == {d}) || ({aff(d, i)} && {live})",
                     f"(g) tx {i} blocked by {d}: reverse edge present and blocker live")
                emit(f"!({PH}[{i}] == 0 && {LA}[{i}] == {d} && {PH}[{d}] != 2 && {CD} < {i}) || ({dd(i)} == 1 && {dv(i)} == {d})",
                     f"(h) tx {i} still waits for its unresolved blocker {d} (no stale release)")
            for j in range(i + 1):
                emit(f"!{aff(i, j)}", f"(i) no backward/self reverse edge {i}->{j}")

    def havoc(self, D, C, PH, LA, CD):
        H, N = self.H, self.N
        a = self.acc(D, C)
        H.c(f"{a['idx']} = nondet_usize(); {a['com']} = nondet_usize(); {CD} = {a['com']};")
        for i in range(N):
            H.c(f"{a['lk1'](i)} = 0; {a['lk2'](i)} = 0; {a['onb'](i)} = nondet_bool(); {a['dd'](i)} = nondet_uchar(); "
                f"{a['dv'](i)} = nondet_usize(); {PH}[{i}] = nondet_uchar(); {LA}[{i}] = nondet_usize();")
            for j in range(N):
                H.c(f"{a['aff'](i, j)} = nondet_bool();")
        self.inv(D, C, PH, LA, CD, lambda c, m: H.assume(c), allow_executing=True)

    def reader(self, C):
        return VAgg([VRef(self.H.nav(C, "0"), [])])

    # ---- actions --------------------------------------------------------------------------------
    def finish(self, D, C, t, outcome, PH, LA, chain=True):
        """executor of t (ph[t]==1) finishes with the given outcome class: S success, B blocked by predecessor,
        U retry without blocker, K error barrier"""
        H, N = self.H, self.N
        self.uid += 1
        u = self.uid
        if outcome == "B":
            H.cvar(f"bd{u}", "usize", shared=False)
            H.c(f"bd{u} = nondet_usize(); __CPROVER_assume(bd{u} < {t});")
            H.call("TxDependency::add", [H.ref(D), H.val(t), VAgg([H.val(f"bd{u}")], variant="Some")])
            H.c(f"__CPROVER_atomic_begin(); {LA}[{t}] = bd{u}; {PH}[{t}] = 0; {self.status(t)} = {ST['Conflict']}; {self.tlk(t)} = 0; __CPROVER_atomic_end();")
        elif outcome == "X":
            # Scheduler::validate failing a done tx: status = Conflict; add(t, dependency filtered by the finality index (any predecessor
            # or none: the finality index may have moved on since the filter)); the validator holds t's lock throughout
            H.cvar(f"bd{u}", "usize", shared=False)
            H.c(f"bd{u} = nondet_usize(); __CPROVER_assume(bd{u} < {t} || bd{u} == {N});")
            H.c(f"if (bd{u} < {N}) {{")
            H.call("TxDependency::add", [H.ref(D), H.val(t), VAgg([H.val(f"bd{u}")], variant="Some")])
            H.c("} else {")
            H.call("TxDependency::add", [H.ref(D), H.val(t), VAgg([], variant="None")])
            H.c("}")
            # ghost: waits recorded against t's finished incarnation were discharged by it; la[] only tracks waits on current incarnations
            clr = " ".join(f"if ({LA}[{i}] == {t}) {LA}[{i}] = {N};" for i in range(N))
            H.c(f"__CPROVER_atomic_begin(); {clr} {LA}[{t}] = bd{u}; {PH}[{t}] = 0; {self.status(t)} = {ST['Conflict']}; {self.tlk(t)} = 0; __CPROVER_atomic_end();")
        elif outcome == "U":
            H.call("TxDependency::add", [H.ref(D), H.val(t), VAgg([], variant="None")])
            H.c(f"__CPROVER_atomic_begin(); {LA}[{t}] = {N}; {PH}[{t}] = 0; {self.status(t)} = {ST['Conflict']}; {self.tlk(t)} = 0; __CPROVER_atomic_end();")
        elif outcome == "K":
            H.call("TxDependency::key_tx", [H.ref(D), H.val(t), self.reader(C)])
            H.c(f"__CPROVER_atomic_begin(); {LA}[{t}] = {N}; {PH}[{t}] = 0; {self.status(t)} = {ST['Conflict']}; {self.tlk(t)} = 0; __CPROVER_atomic_end();")
        else:
            nx = H.local(f"nx{u}", "Option<usize>")
            H.call("TxDependency::remove", [H.ref(D), H.val(t), H.val("1" if chain else "0", "_Bool")], nx)
            H.c(f"__CPROVER_atomic_begin(); {PH}[{t}] = 2; {self.status(t)} = {ST['Executed']}; {self.tlk(t)} = 0; __CPROVER_atomic_end();")
            d, v = H.lv(nx, "d"), H.lv(nx, "Some.0")
            H.c(f"if ({d} == {H.variant(nx, '', 'Some')}) {{")
            H.assert_(f"{v} == {t} + 1 && {v} < {N}", "direct hand-off is the immediate successor")
            if chain:
                self.dispatch(D, v, PH, u)
            else:
                H.assert_("0", "hand-off without request")
            H.c("}")

    def dispatch(self, D, v, PH, u):
        """the REAL Scheduler::execution_task(v) (scheduler.rs): locks tx v's state and dispatches on its status -- queued -> Executing
        (the new executor's own finish is a later step), Executing -> nothing, anything else -> tx_dependency.remove(v, false).
        A tx whose executor acts in this step holds its state lock until it has published its status: the claimer waits for it."""
        H, N = self.H, self.N
        tk = H.local(f"tk{u}", "Option<Task>")
        H.c(f"if ({v} < {N}) {{")
        H.call("Scheduler::execution_task", [H.ref(self.S), H.val(v)], tk)
        H.c(f"if ({H.lv(tk, 'd')} == {H.variant(tk, '', 'Some')}) {{")
        H.assert_(f"{H.lv(tk, 'Some.0.d')} == {H.variant(tk, 'Some.0', 'Execution')} && {H.lv(tk, 'Some.0.Execution.0.txid')} == {v}", "the task handed out is the execution of the claimed tx")
        H.c(f"__CPROVER_atomic_begin(); {PH}[{v}] = 1; __CPROVER_atomic_end();")
        H.c("}")
        H.c("}")

    def claim_step(self, D, C, PH, LA):
        """worker: next(); execution_task's status dispatch"""
        H, N = self.H, self.N
        self.uid += 1
        u = self.uid
        r = H.local(f"cl{u}", "Option<usize>")
        H.call("TxDependency::next", [H.ref(D)], r)
        d, v = H.lv(r, "d"), H.lv(r, "Some.0")
        H.c(f"if ({d} == {H.variant(r, '', 'Some')}) {{")
        H.assert_(f"{v} < {N}", "claimed index within the block")
        self.dispatch(D, v, PH, u)
        H.c("}")

    def commit_step(self, D, C, PH, CD, assume_ready=False):
        H, N = self.H, self.N
        if assume_ready:
            H.c(f"__CPROVER_assume({CD} < {N} && {PH}[{CD} < {N} ? {CD} : 0] == 2);")
        H.c(f"if ({CD} < {N} && {PH}[{CD} < {N} ? {CD} : 0] == 2) {{")
        H.call("PublishedCursor::publish", [H.ref(C), H.val(f"{CD} + 1")])
        H.call("TxDependency::commit", [H.ref(D), H.val(CD)])
        H.c(f"{CD} = {CD} + 1;")
        H.c("}")


def build_pair(N, roles, fix=None):
    """roles: list of 'S','B','U','K' (finish an executing tx that way), 'X' (validation failure of a done tx), 'N' (claim step), 'C' (commit)"""
    def b(tr):
        H = hz.Harness(tr, "c16_" + "".join(roles))
        S = H.shared("S", "Scheduler<DB>")
        k = K(H, N, S)
        D = H.nav(S, "tx_dependency")
        C = H.shared("cc", "PublishedCursor")
        k.freeze(D)
        H.cvar("phase", "unsigned char", dims=[N]); H.cvar("last_add", "usize", dims=[N]); H.cvar("commit_done", "usize")
        k.havoc(D, C, "phase", "last_add", "commit_done")
        H.cvar("instep", "_Bool", dims=[N])   # ghost: tx i's executor acts in this step (others stay executing throughout)
        for i in range(N):
            H.c(f"instep[{i}] = 0;")
        k.tie_status("phase")
        execs = [r for r in roles if r in "SBUKX"]
        for n, r in enumerate(execs):
            H.param(f"T{n}")
            pre = f"phase[T{n}] == 1" if r != "X" else f"phase[T{n}] == 2 && T{n} >= commit_done && {k.status('T%d' % n)} != {ST['Finality']}"
            H.c(f"T{n} = nondet_usize(); __CPROVER_assume(T{n} < {N} && {pre});" if not (fix and n in fix) else
                f"T{n} = {fix[n]}; __CPROVER_assume({pre});")
            for m in range(n):
                H.c(f"__CPROVER_assume(T{n} != T{m});")
            # the executor / validator holds its transaction's state lock until it has published the new status
            H.c(f"instep[T{n}] = 1; {k.tlk('T%d' % n)} = 1;")
        if "C" in roles:
            H.assume(f"commit_done < {N} && phase[commit_done < {N} ? commit_done : 0] == 2")
            # the commit loop only commits below the finality index, i.e. a tx whose status is Finality (never validated again)
            H.assume(f"{k.status('(commit_done < %d ? commit_done : 0)' % N)} == {ST['Finality']}")
        n = 0
        for ti, r in enumerate(roles):
            t = H.thread(f"t{ti}{r}"); H.enter(t)
            if r in "SBUKX":
                k.finish(D, C, f"T{n}", r, "phase", "last_add")
                n += 1
            elif r == "N":
                k.claim_step(D, C, "phase", "last_add")
            elif r == "C":
                k.commit_step(D, C, "phase", "commit_done")
        H.post()
        sd = snapshot(H, D, "sdep"); sc = snapshot(H, C, "scc")
        k.freeze(sd)
        H.cvar("ph", "unsigned char", dims=[N], shared=False); H.cvar("la", "usize", dims=[N], shared=False)
        H.cvar("cd", "usize", shared=False)
        H.c("cd = commit_done;")
        for i in range(N):
            H.c(f"ph[{i}] = phase[{i}]; la[{i}] = last_add[{i}];")
        k.inv(sd, sc, "ph", "la", "cd", lambda c, m: H.assert_(c, "INV " + m), allow_executing=True)
        a = k.acc(sd, sc)
        H.cover(" || ".join(f"(ph[{i}] == 0 && {a['dd'](i)} == 1 && {a['dv'](i)} < {i})" for i in range(1, N)), "a tx ends blocked behind a predecessor")
        H.cover(" || ".join(f"ph[{i}] == 2" for i in range(N)), "some tx done")
        return H
    return b


def build_completion(N):
    def b(tr):
        H = hz.Harness(tr, "c16_completion")
        S = H.local("S", "Scheduler<DB>")
        k = K(H, N, S)
        D = H.nav(S, "tx_dependency"); C = H.local("cc", "PublishedCursor")
        k.freeze(D)
        H.cvar("ph", "unsigned char", dims=[N], shared=False); H.cvar("la", "usize", dims=[N], shared=False)
        H.cvar("cd", "usize", shared=False)
        k.havoc(D, C, "ph", "la", "cd")
        for i in range(N):
            H.assume(f"ph[{i}] != 1")
        k.tie_status("ph")
        a = k.acc(D, C)
        H.cvar("dk", "int", shared=False); H.cvar("TT", "usize", shared=False)
        H.cvar("instep", "_Bool", dims=[N], shared=False)
        for i in range(N):
            H.c(f"instep[{i}] = 1;")
        rounds = 3 * N + 2
        H.c(f"for (dk = 0; dk < {rounds}; dk++) {{")
        k.claim_step(D, C, "ph", "la")
        H.c(f"TT = {N};")
        for i in reversed(range(N)):
            H.c(f"if (ph[{i}] == 1) TT = {i};")
        H.c(f"if (TT < {N}) {{")
        k.finish(D, C, "TT", "S", "ph", "la")
        H.c("}")
        k.commit_step(D, C, "ph", "cd")
        H.c("}")
        for i in range(N):
            H.assert_(f"ph[{i}] == 2", f"no orphan: from every INV state tx {i} completes under sequential scheduling")
        H.assert_(f"cd == {N}", "whole block committed")
        H.cover("1", "completion reached")
        return H
    return b


def cfg(N):
    hook, unhook = lock_rank_hook(N)
    c = sc.mv_cfg(N, L=1)
    c.update({"cap": N, "set_iter_cap": N, "lock_hook": hook, "unlock_hook": unhook,
              "loops": {"TxDependency::remove": {"*": (N + 1, "assert")}}})
    return c


SINGLES = ["S", "B", "U", "K", "X", "N", "C"]
QUICK_PAIRS = ["SC", "BB", "BU", "BK", "BC", "UK", "UN", "UC", "KN", "KC", "NC", "UU", "KK", "XC", "XU", "XK"]     # each < ~4 min
SLOW_PAIRS = ["SB", "SU", "SK", "BN", "XN", "XB", "XX"]        # 4-18 min each
SPLIT_PAIRS = ["SN", "SS", "NN"]                     # only decided when case-split on the executors' transaction ids
TRIPLES = ["BKC", "UNC"]                             # 10-20 min each under load
HARD = ["XS", "BBS", "SSB", "BBN", "KCN", "BNC", "BSC"]   # no verdict within an hour (first four) or 40-55 min under load and not re-measured since the
                                                     # real execution_task was added (last three): tier `experimental` only (not registered)
ROLE_DOC = ("(S finish ok+handoff, B blocked by predecessor, U retry, K error barrier, X validation failure of a done tx, "
            "N cursor claim + real execution_task dispatch, C commit)")


def specs(tier):
    out = [Spec("completion_n3", build_completion(3), cfg=cfg(3), unwind=14, timeout=3600,
                desc="sequential: from an arbitrary INV state (nothing executing) repeated next()/remove()/commit() finishes the block",
                bounds={"n": 3, "threads": 1, "rounds": 11})]
    out.append(Spec("refine_execute_task_n3", build_refine_exec(3), cfg=cfg_refine(3), unwind=6, timeout=2700,
                    desc="refinement: from any invariant graph state, the graph / status effect of the REAL Scheduler::execute_task (ghost executor: Ok / Err, any blocker set) "
                         "equals the scripted finishing role (S / B / U / K) the inductive steps use", bounds={"n": 3, "threads": 1, "locations": 1}))
    for p in SINGLES:
        out.append(Spec(f"step_{p}_n3", build_pair(3, list(p)), cfg=cfg(3), unwind=6, timeout=900,
                        desc=f"one role alone from an arbitrary INV state: {p} " + ROLE_DOC,
                        bounds={"n": 3, "threads": 1}))
    for p in QUICK_PAIRS:
        out.append(Spec(f"step_{p}_n3", build_pair(3, list(p)), cfg=cfg(3), unwind=6, timeout=3600,
                        desc=f"one concurrent step from an arbitrary INV state: roles {' || '.join(p)} " + ROLE_DOC,
                        bounds={"n": 3, "threads": len(p), "memory_model": "SC"}))
    if tier == "thorough":
        for p in SLOW_PAIRS:
            out.append(Spec(f"step_{p}_n3", build_pair(3, list(p)), cfg=cfg(3), unwind=6, timeout=3600,
                            desc=f"roles {' || '.join(p)} " + ROLE_DOC, bounds={"n": 3, "threads": 2, "memory_model": "SC"}))
        for p in TRIPLES:
            out.append(Spec(f"step_{p}_n3", build_pair(3, list(p)), cfg=cfg(3), unwind=6, timeout=10800,
                            desc=f"three concurrent roles {' || '.join(p)} from an arbitrary INV state",
                            bounds={"n": 3, "threads": 3}))
        for p in ["B", "S", "KC", "BC"]:
            out.append(Spec(f"step_{p}_n4", build_pair(4, list(p)), cfg=cfg(4), unwind=7, timeout=3600,
                            desc=f"roles {' || '.join(p)} at n=4", bounds={"n": 4, "threads": len(p)}))
    if tier == "experimental":
        out = []
        for p in SPLIT_PAIRS:
            if p[0] == "N":
                out.append(Spec(f"step_{p}_n3", build_pair(3, list(p)), cfg=cfg(3), unwind=6, timeout=3600, desc="two concurrent cursor claims", bounds={"n": 3, "threads": 2}))
                continue
            out.append(Spec(f"step_{p}_n3", build_pair(3, list(p)), cfg=cfg(3), unwind=6, timeout=3600, desc=f"roles {' || '.join(p)}", bounds={"n": 3, "threads": 2}))
            for t0 in range(3):
                out.append(Spec(f"step_{p}_T{t0}_n3", build_pair(3, list(p), fix={0: t0}), cfg=cfg(3), unwind=6, timeout=3600,
                                desc=f"roles {' || '.join(p)}, first executor's transaction fixed to {t0} (case split)",
                                bounds={"n": 3, "threads": 2, "memory_model": "SC"}))
        for p in HARD:
            out.append(Spec(f"step_{p}_n3", build_pair(3, list(p)), cfg=cfg(3), unwind=6, timeout=3600, desc=f"roles {' || '.join(p)}", bounds={"n": 3, "threads": len(p)}))
    return out


# ------------------------------------------------------------------------------------------------ refinement: the scripted roles are what the real code does
def exec_stub_outcome(N):
    def stub(tr, c):
        """executor.execute_incarnation -> solver-chosen outcome: Ok / Err, with an arbitrary set of estimate blockers below the tx"""
        d = c.dest()
        res, acc = d.node.f("result"), d.node.f("accesses")
        rs, ws, bt = acc.f("read_set"), acc.f("write_set"), acc.f("blocking_txs")
        for k in range(bt.f("present").cap):
            tr.emit(f"{bt.f('present').elem.name}{hz.sub(d.idxs + [str(k)])} = blk[{k}];" if k < N else f"{bt.f('present').elem.name}{hz.sub(d.idxs + [str(k)])} = 0;")
        tr.emit(f"{rs.f('present').elem.name}{hz.sub(d.idxs + ['0'])} = 0; {rs.f('keys').elem.fields[0].name}{hz.sub(d.idxs + ['0'])} = 0;")
        tr.emit(f"{ws.f('present').elem.name}{hz.sub(d.idxs + ['0'])} = (!exec_err && wnew0); {ws.f('keys').elem.fields[0].name}{hz.sub(d.idxs + ['0'])} = 0;")
        tr.emit(f"{tr.lv(Loc(acc.f('blocked_by_beneficiary'), d.idxs))} = 0;")
        oki, erri = res.vindex("Ok"), res.vindex("Err")
        e = res.variants[erri][1].fields[0]
        tr.emit(f"if (exec_err) {{ {tr.lv(Loc(res.discr, d.idxs))} = {erri}; {tr.lv(Loc(e.discr, d.idxs))} = err_invalid ? {e.vindex('Transaction')} : {e.vindex('Custom')}; "
                f"{tr.lv(Loc(e.variants[e.vindex('Transaction')][1].fields[0].fields[0], d.idxs))} = 9; }} else {{ "
                f"{tr.lv(Loc(res.discr, d.idxs))} = {oki}; {tr.lv(Loc(res.variants[oki][1].fields[0].fields[0], d.idxs))} = 7; }}")
    return stub


def build_refine_exec(N):
    """the graph side of the REAL Scheduler::execute_task equals the scripted finishing role used in the inductive steps"""
    def b(tr):
        import c02
        H = hz.Harness(tr, "c16_refine_exec")
        S = H.local("S", "Scheduler<DB>")
        k = K(H, N, S)
        k2 = c02.K(H, S, N)
        D = H.nav(S, "tx_dependency"); C = H.nav(S, "scheduler_ctx.committed")
        k.freeze(D)
        sc.init_sched(H, S, N); sc.init_ctx(H, S, N); sc.init_tx_tables(H, S, N, 1)
        H.cvar("ph", "unsigned char", dims=[N], shared=False); H.cvar("la", "usize", dims=[N], shared=False); H.cvar("cd", "usize", shared=False)
        H.cvar("instep", "_Bool", dims=[N], shared=False)
        k.havoc(D, C, "ph", "la", "cd")          # any invariant state of the graph (committed boundary = S.scheduler_ctx.committed)
        k.tie_status("ph")
        H.cvar("blk", "_Bool", dims=[N], shared=False); H.cvar("exec_err", "_Bool", shared=False); H.cvar("err_invalid", "_Bool", shared=False)
        H.cvar("wnew0", "_Bool", shared=False); H.cvar("T", "usize", shared=False); H.cvar("bd", "usize", shared=False); H.cvar("blocked", "_Bool", shared=False)
        H.c(f"T = nondet_usize(); __CPROVER_assume(T < {N} && ph[T] == 1); exec_err = nondet_bool(); err_invalid = nondet_bool(); wnew0 = nondet_bool();")
        H.c(f"{k2.inc('T')} = 2;")
        H.c(f"{k2.ctx('finality')} = nondet_usize(); __CPROVER_assume({k2.ctx('committed')} <= {k2.ctx('finality')} && {k2.ctx('finality')} <= T);")
        H.c(f"{k2.ctx('logical_clock')} = 5; {k2.ctx('validation')} = nondet_usize(); __CPROVER_assume({k2.ctx('validation')} <= {N});")
        H.c(f"bd = {N}; blocked = 0;")
        for i in range(N):
            H.c(f"blk[{i}] = nondet_bool(); if ({i} >= T) blk[{i}] = 0; if (blk[{i}]) {{ blocked = 1; }}")
        # previous result of T: arbitrary (none / one location)
        H.c(f"{H.lv(k2.trn, 'd', ['T'])} = nondet_bool(); {H.lv(k2.trn, 'Some.0.execute_result.d', ['T'])} = 0; {k2.ws_present('T')} = nondet_bool(); "
            f"{H.lv(k2.trn, 'Some.0.write_set.keys.e.id', ['T', 0])} = 0; {k2.rs_present('T')} = 0;")
        H.c(f"{k2.mv_key()} = nondet_bool();")
        for a_ in range(N):
            H.c(f"{k2.mv_p(a_)} = nondet_bool(); {k2.mv_inc(a_)} = nondet_usize(); {k2.mv_est(a_)} = nondet_bool();")
        pre_d = snapshot(H, D, "pre_dep"); pre_t = snapshot(H, H.nav(S, "tx_states"), "pre_txs")
        t2 = H.local("taskr", "Option<Task>")
        H.call("Scheduler::execute_task", [H.ref(S), VUnit(), VUnit(), VAgg([H.val("T"), H.val("2")])], t2)
        real_d = snapshot(H, D, "real_dep"); real_t = snapshot(H, H.nav(S, "tx_states"), "real_txs")
        TS = H.nav(S, "tx_states")
        for i in range(N):
            H.c(f"instep[{i}] = 1;")
        cls = lambda e: f"(({e}) == {ST['Initial']} || ({e}) == {ST['Conflict']} ? 0 : (({e}) == {ST['Executing']} ? 1 : 2))"

        def restore():
            H.c(f"{H.lv(D, 'index')} = {H.lv(pre_d, 'index')};")
            for i in range(N):
                for pth in ("dependent_state.e.locked", "dependent_state.e.data.onboard", "dependent_state.e.data.dependency.d",
                            "dependent_state.e.data.dependency.Some.0", "affect_txs.e.locked"):
                    H.c(f"{H.lv(D, pth, [i])} = {H.lv(pre_d, pth, [i])};")
                for j in range(N):
                    H.c(f"{H.lv(D, 'affect_txs.e.data.present.e', [i, j])} = {H.lv(pre_d, 'affect_txs.e.data.present.e', [i, j])};")
                for pth in ("e.locked", "e.data.status.d", "e.data.incarnation"):
                    H.c(f"{H.lv(TS, pth, [i])} = {H.lv(pre_t, pth, [i])};")
            H.c(f"{k.tlk('T')} = 1;")

        def same():
            sd, st_ = k.acc(D, C), k.acc(real_d, C)
            cs = [f"{sd['idx']} == {H.lv(real_d, 'index')}"]
            for i in range(N):
                cs.append(f"{sd['onb'](i)} == {st_['onb'](i)} && {sd['dd'](i)} == {st_['dd'](i)} && ({sd['dd'](i)} == 0 || {sd['dv'](i)} == {st_['dv'](i)})")
                for j in range(N):
                    cs.append(f"{sd['aff'](i, j)} == {st_['aff'](i, j)}")
                rs_ = H.lv(real_t, "e.data.status.d", [i]); ri = H.lv(real_t, "e.data.incarnation", [i])
                cs.append(f"{cls(k.status(i))} == {cls(rs_)} && {H.lv(TS, 'e.data.incarnation', [i])} == {ri} && !{H.lv(real_t, 'e.locked', [i])}")
            return " && ".join(f"({c_})" for c_ in cs)
        rdd, rdv = H.lv(real_d, "dependent_state.e.data.dependency.d", ["T"]), H.lv(real_d, "dependent_state.e.data.dependency.Some.0", ["T"])
        H.c(f"bd = ({rdd} == 1) ? {rdv} : {N};")
        for nm in ("same_S", "same_B", "same_U", "same_K"):
            H.cvar(nm, "_Bool", shared=False)
            H.c(f"{nm} = 0;")
        # role S: remove(t, true), status done, hand-off dispatch through the real execution_task
        restore()
        k.finish(D, C, "T", "S", "ph", "la")
        H.c(f"same_S = {same()};")
        # role B: wait for a predecessor -- ANY predecessor is acceptable (the graph is advisory); the candidate is read off the real post-state
        restore()
        H.c("if (bd < T) {")
        H.call("TxDependency::add", [H.ref(D), H.val("T"), VAgg([H.val("bd")], variant="Some")])
        H.c(f"{k.status('T')} = {ST['Conflict']}; {k.tlk('T')} = 0;")
        H.c(f"same_B = {same()};")
        H.c("}")
        # role U: re-queue without a blocker
        restore()
        H.call("TxDependency::add", [H.ref(D), H.val("T"), VAgg([], variant="None")])
        H.c(f"{k.status('T')} = {ST['Conflict']}; {k.tlk('T')} = 0;")
        H.c(f"same_U = {same()};")
        # role K: own commit barrier
        restore()
        H.call("TxDependency::key_tx", [H.ref(D), H.val("T"), k.reader(C)])
        H.c(f"{k.status('T')} = {ST['Conflict']}; {k.tlk('T')} = 0;")
        H.c(f"same_K = {same()};")
        H.assert_(f"!{H.lv(S, 'abort')} || (exec_err && !blocked)", "only an unblocked error can abort")
        H.assert_("(blocked || exec_err) || same_S",
                  "an unblocked successful attempt acts on the graph exactly like the scripted role S: remove(t, true), status done, hand-off dispatched through execution_task")
        H.assert_("!(blocked || exec_err) || same_B || same_U || same_K",
                  "a blocked or failed attempt acts on the graph like one of the scripted non-success roles (wait for SOME predecessor / re-queue / own commit barrier) "
                  "and leaves the transaction queued with its state lock released")
        H.cover("blocked && bd < T", "blocked: waits for a predecessor"); H.cover(f"blocked && bd == {N}", "blocked but re-queued without a blocker (all blockers already final)")
        H.cover("!blocked && exec_err", "plain error: barrier"); H.cover(f"!blocked && !exec_err && {H.lv(t2, 'd')} == 1", "success with a task handed back"); H.cover("blocked && same_B && !same_U", "blocked: distinguishable wait for a predecessor")
        return H
    return b


def cfg_refine(N):
    import c02
    stubs = dict(sc.bene_true_stubs())
    stubs["<impl ParallelTransactionExecutor as ParallelTransactionExecutor>::execute_incarnation"] = exec_stub_outcome(N)
    c = sc.mv_cfg(N, L=1, stubs=stubs)
    c.update({"cap": N, "set_iter_cap": N})
    c["loops"] = {"Scheduler::execute_task": {"*": (3, "assert")}, "Scheduler::mark_mv_estimate": {"*": (3, "assert")},
                  "ExecutionFrontier::advance": {"*": (N + 2, "assert")}, "TxDependency::remove": {"*": (N + 1, "assert")}}
    return c
