"""C05  Every execution terminates: no deadlock, lost wake-up, stall or stranded thread  (safety lemmas; no unbounded liveness).

Bounded model checking cannot prove termination of unbounded schedules.  Decided on the real code, within bounds:

  h1_* no lost notification      : WaitSlot register / wait_while / notify with a parker WITHOUT timeout, incl. the commit
                                   loop's real predicate with cancel() and the finality publication (= C17 h1..h3); producer side:
                                   the real finality loop announces every publication before it sleeps or returns (= C17 h6)
  h2_* no orphaned transaction   : from ANY state of the dependency graph satisfying its invariant every unfinished transaction
                                   completes under next()/remove()/commit(); each role re-establishes the invariant (= C16
                                   completion + single-role steps); committing tx k-1 releases tx k parked behind its own commit
                                   boundary (= C04/h2); an erroring attempt that does not abort is claimable again (= C04/h5)
  h3_abort_releases_workers      : with the abort flag set, next() hands out nothing and touches nothing, from any cursor state;
                                   run_commit_loop returns at once with an empty output
Not decided: schedules longer than the bounds, the panic path (CancelOnPanic / resume_unwind needs unwind edges the translator
does not follow), the real finality loop || commit loop composition (experimental tier only), OS parker / thread behaviour.
"""
from run import Spec
import harness as hz
from translate import Loc, VAgg, VRef, VScalar, VLoc, VUnit, TranslateError
import sched_common as sc
import c04
import c16
import c17


def build_h3(N=3):
    def b(tr):
        H = hz.Harness(tr, "c05_h3")
        S = H.local("S", "Scheduler<DB>")
        sc.freeze_sched(H, S, N)
        sc.init_sched(H, S, N)
        sc.init_ctx(H, S, N)
        sc.init_tx_tables(H, S, N, L=1)
        # arbitrary cursor positions and statuses, abort already raised
        for f in ("scheduler_ctx.validation", "scheduler_ctx.finality", "scheduler_ctx.execution_frontier.frontier", "tx_dependency.index"):
            H.c(f"{H.lv(S, f)} = nondet_usize(); __CPROVER_assume({H.lv(S, f)} <= {N});")
        H.assume(f"{H.lv(S, 'scheduler_ctx.finality')} < {N}")
        for i in range(N):
            H.c(f"{H.lv(S, 'tx_states.e.data.status.d', [i])} = nondet_uchar(); __CPROVER_assume({H.lv(S, 'tx_states.e.data.status.d', [i])} <= 6);")
            H.c(f"{H.lv(S, 'scheduler_ctx.execution_frontier.executed.e', [i])} = nondet_bool();")
        H.c(f"{H.lv(S, 'abort')} = 1; {H.lv(S, 'abort_reason.set')} = 1; {H.lv(S, 'abort_reason.val.d')} = 3;")
        H.cvar("v0", "usize", shared=False); H.cvar("x0", "usize", shared=False)
        H.c(f"v0 = {H.lv(S, 'scheduler_ctx.validation')}; x0 = {H.lv(S, 'tx_dependency.index')};")
        task = H.local("task", "Option<Task>")
        H.call("Scheduler::next", [H.ref(S)], task)
        H.assert_(f"{H.lv(task, 'd')} == {H.variant(task, '', 'None')}", "an aborted scheduler hands out no task")
        H.assert_(f"{H.lv(S, 'scheduler_ctx.validation')} == v0 && {H.lv(S, 'tx_dependency.index')} == x0", "and claims nothing")
        CM = H.local("committer", "OrderedCommitter<DB>")
        H.c(f"{H.lv(S, 'results.data.len')} = 0; {H.lv(S, 'results.locked')} = 0;")
        clr = H.local("clr", "CommitLoopResult<DBError>")
        H.cvar("plan", "unsigned char", dims=[N], shared=False); H.cvar("commit_calls", "usize", shared=False); H.cvar("fin_seen_max", "usize", shared=False)
        H.c(f"commit_calls = 0; fin_seen_max = {N};")
        H.call("Scheduler::run_commit_loop", [H.ref(S), H.ref(CM)], clr)
        H.assert_(f"commit_calls == 0 && {H.lv(clr, 'committed.outcomes.len')} == 0 && {H.lv(clr, 'error.d')} == 0", "an aborted commit loop returns at once with nothing committed")
        H.cover("v0 < x0", "a validation was claimable")
        return H
    return b


def h3_cfg(N=3):
    stubs = dict(sc.bene_true_stubs())
    stubs["OrderedCommitter::commit"] = c04.commit_stub(N)
    c = sc.mv_cfg(N, L=1, stubs=stubs)
    c["loops"] = {"Scheduler::next": {"*": (2, "assert")}, "Scheduler::run_commit_loop": {"*": (2, "assert")}}
    return c


def specs(tier):
    out = [Spec("h3_abort_releases_workers", build_h3(3), cfg=h3_cfg(3), unwind=4, timeout=1800,
                desc="real next() and run_commit_loop with the abort flag set, arbitrary cursor state", bounds={"n": 3})]
    for s in c17.specs(tier):
        if s.name in ("h1_slot_spurious", "h2_two_conditions", "h3_commit_predicate_cancel", "h6_finality_announces_n3", "h7_validate_notifies_parked_finality"):
            s.name = "h1_" + s.name
            out.append(s)
    for s in c16.specs(tier):
        if s.name in ("completion_n3", "step_S_n3", "step_B_n3", "step_K_n3", "refine_execute_task_n3", "step_N_n3", "step_X_n3", "step_C_n3", "step_KC_n3", "step_BC_n3"):
            s.name = "h2_dep_" + s.name
            out.append(s)
    for s in c04.specs(tier):
        if s.name in ("h2_commit_loop", "h5_error_at_head"):
            s.name = "h2_" + s.name
            out.append(s)
    return out
