"""C03  Invalid transactions are skipped exactly as in-order validation dictates  (grevm's own part).

Real code (MIR -> C): ordered_commit.rs {OrderedCommitter::commit (+closures), OrderedCommitOutput::push},
beneficiary/reward.rs {DeferredBeneficiaryReward::apply_to}, beneficiary.rs {SpeculativeResult::into_commit_parts},
fallback.rs {execute_sequential_suffix} (= C04/h3), scheduler.rs {run_commit_loop} (= C04/h2).

  h1_commit_nonce : for EVERY tx nonce, committed sender account (absent / any nonce), speculative post-state (any
                    accounts, any nonces), nonce-check setting and database fault: the speculative result is committed
                    iff the check is disabled or the tx nonce equals the nonce in COMMITTED state (absent = 0) and not
                    both are u64::MAX; otherwise NeedsSequentialFallback and NOTHING is applied (no state commit, no
                    outcome); a fault is returned with the transaction index and nothing applied; with a deferred reward
                    the fee recipient's committed account gets exactly one checked-add credit (C07) and is marked touched.
  h2_seq_suffix   : (= C04/h3) sequential replay: Skipped carries revm's InvalidTransaction unchanged, later transactions run.
  h3_commit_loop  : (= C04/h2) a nonce mismatch at the commit head leaves the transaction uncommitted, requests fallback,
                    releases transactions parked behind their commit boundary.
  h4_replay_nonce_overflow : the replay's pre-check reject_nonce_overflow reports NonceOverflowInTransaction iff nonce checking is on, the tx nonce
                    is u64::MAX and the sender's state nonce is u64::MAX; otherwise it reads nothing / passes, so revm's own reason is reported.
revm's own validate_* (which transactions are protocol-invalid) is the oracle's definition of "invalid": outside the claim.
"""
from run import Spec
import harness as hz
from translate import Loc, VAgg, VRef, VScalar, VLoc, VUnit, TranslateError
import revm_types
import revm_models
import sched_common as sc
import idb_common as ic

A = 2
WIDE = "unsigned char"


def stubs():
    def basic_ref(tr, c):
        a = tr.as_scalar(c.args[1]).expr
        d = c.dest()
        n = d.node
        ok = n.variants[n.vindex("Ok")][1].fields[0]
        info = ok.variants[ok.vindex("Some")][1].fields[0]
        tr.emit(f"__CPROVER_assume({a} < {A}); lookups[{a}]++;")
        tr.emit(f"if (com_fault[{a}]) {{ {tr.lv(Loc(n.discr, d.idxs))} = {n.vindex('Err')}; {tr.lv(Loc(n.variants[n.vindex('Err')][1].fields[0], d.idxs))} = (unsigned char)(60 + {a}); }} else {{")
        tr.emit(f"{tr.lv(Loc(n.discr, d.idxs))} = {n.vindex('Ok')}; {tr.lv(Loc(ok.discr, d.idxs))} = com_exists[{a}] ? {ok.vindex('Some')} : {ok.vindex('None')};")
        tr.emit(f"{tr.lv(Loc(info.f('balance'), d.idxs))} = com_balance[{a}]; {tr.lv(Loc(info.f('nonce'), d.idxs))} = com_nonce[{a}]; "
                f"{tr.lv(Loc(info.f('code_hash'), d.idxs))} = com_code_hash[{a}]; {tr.lv(Loc(info.f('code').discr, d.idxs))} = 1; {tr.lv(Loc(info.f('code').variants[1][1].fields[0].fields[0], d.idxs))} = (unsigned char)(40 + {a}); }}")

    def commit(tr, c):
        st = c.args[1]
        tr.emit("commits++;")
        dst = tr.globals_lookup("committed_state") if hasattr(tr, "globals_lookup") else None
        tr.copy(Loc(tr._c03_state, []), st.loc if isinstance(st, VLoc) else tr.deref(st))

    def acc_from(tr, c):
        """revm-state: Account::from(info) = { info, status: empty, storage: empty, transaction_id: 0, original_info: .. }"""
        d = c.dest()
        n = d.node
        tr.store(Loc(n.f("info"), d.idxs), c.args[0])
        tr.emit(f"{tr.lv(Loc(n.f('status'), d.idxs))} = 0;")
        p = n.f("storage").f("present")
        for k in range(p.cap):
            tr.emit(f"{p.elem.name}{hz.sub(d.idxs + [str(k)])} = 0;")
        oi = n.f("original_info")
        if oi.kind == "enum":
            tr.emit(f"{tr.lv(Loc(oi.discr, d.idxs))} = 0;")
    def invalid_into(tr, c):
        """impl From<InvalidTransaction> for EVMError<..>: EVMError::Transaction(e)"""
        d = c.dest()
        n = d.node
        ti = n.vindex("Transaction")
        tr.emit(f"{tr.lv(Loc(n.discr, d.idxs))} = {ti};")
        tr.store(Loc(n.variants[ti][1].fields[0], d.idxs), c.args[0])
    return {"<ParallelStateCommit as DatabaseRef>::basic_ref": basic_ref, "<DB as DatabaseRef>::basic_ref": basic_ref,
            "<InvalidTransaction as Into>::into": invalid_into, "<ParallelStateCommit as DatabaseCommit>::commit": commit,
            "<Account as From>::from": acc_from}


def t_result_and_state(tr, ty, name, dims, storage, g=None):
    """revm ExecResultAndState<R, S = EvmState> { result: R, state: S }"""
    from translate import StructN
    from rtypes import parse_type
    s = StructN(ty, name, dims, storage)
    s.fields.append(tr.alloc(ty.args[0] if ty.args else parse_type("ExecutionResult"), name + "_result", dims, storage, g or {}))
    s.names.append("result")
    s.fields.append(tr.alloc(ty.args[1] if len(ty.args) > 1 else parse_type("HashMap<Address, Account>"), name + "_state", dims, storage, g or {}))
    s.names.append("state")
    return s


def cfg():
    ov = revm_types.base_overrides()
    ov["ExecResultAndState"] = t_result_and_state
    ov["ResultAndState"] = t_result_and_state
    del ov["TxEnv"]
    for k in ("ParallelStateCommit", "ParallelState", "DelegatedSafetyConfig", "Beneficiary"):
        ov[k] = revm_types.unit
    ov.update(revm_models.type_overrides(WIDE))
    ov["ExecutionResult"] = sc.t_spec_result
    c = {"type_overrides": ov, "stubs": stubs(), "cap": 2, "noops": [r"metrics", r"ExecuteMetricsCollector", r"Histogram"],
         "dead_calls": sc.TRACING_DEAD, "opaque_types": [r"tracing"],
         "key_caps": {"Address": A, "Uint": 2, "U256": 2, "StorageKey": 2}, "key_cap": A,
         "consts": revm_models.consts(), "extra_src": revm_models.extra_src_roots(),
         "aliases": {"EvmState": "HashMap<Address, Account>", "EvmStorage": "HashMap<StorageKey, EvmStorageSlot>",
                     "ResultAndState": "ExecResultAndState<ExecutionResult>"},
         "panic_ok": []}
    c["stubs"]["<Level as PartialOrd>::le"] = sc.m_level_le
    return c


def build_h1():
    def b(tr):
        H = hz.Harness(tr, "c03_h1")
        for nm, ct in (("com_exists", "_Bool"), ("com_fault", "_Bool"), ("com_balance", WIDE), ("com_nonce", "u64"), ("com_code_hash", WIDE), ("lookups", "unsigned char")):
            H.cvar(nm, ct, dims=[A], shared=False)
        H.cvar("commits", "unsigned char", shared=False)
        H.c("commits = 0;")
        for a in range(A):
            H.c(f"com_exists[{a}] = nondet_bool(); com_fault[{a}] = nondet_bool(); com_balance[{a}] = nondet_uchar(); com_nonce[{a}] = nondet_usize(); com_code_hash[{a}] = nondet_uchar(); lookups[{a}] = 0;")
        cm = H.local("committer", "OrderedCommitter<DB>")
        tx = H.local("tx", "TxEnv")
        sr = H.local("sr", "SpeculativeResult")
        outp = H.local("output", "OrderedCommitOutput")
        cst = H.local("committed_state", "EvmState")
        tr._c03_state = cst
        res = H.local("res", "Result<CommitOutcome, GrevmError<DBError>>")
        bene = H.lv(cm, "beneficiary")
        H.c(f"{bene} = nondet_uchar(); __CPROVER_assume({bene} < {A}); {H.lv(cm, 'disable_nonce_check')} = nondet_bool();")
        H.c(f"{H.lv(tx, 'caller')} = nondet_uchar(); __CPROVER_assume({H.lv(tx, 'caller')} < {A}); {H.lv(tx, 'nonce')} = nondet_usize();")
        st = H.nav(sr, "result_and_state.state")
        acc = H.nav(st, "vals.e")
        H.c(f"{H.lv(sr, 'result_and_state.result.id')} = 77;")
        for a in range(A):
            H.c(f"{H.lv(st, 'present.e', [a])} = nondet_bool(); {H.lv(st, 'keys.e', [a])} = {a}; {H.lv(acc, 'status', [a])} = nondet_uchar();")
            H.c(f"{H.lv(acc, 'info.balance', [a])} = nondet_uchar(); {H.lv(acc, 'info.nonce', [a])} = nondet_usize(); {H.lv(acc, 'info.code_hash', [a])} = nondet_uchar(); {H.lv(acc, 'info.code.d', [a])} = 0;")
            for s in range(2):
                H.c(f"{H.lv(acc, 'storage.present.e', [a, s])} = 0;")
        rw = H.nav(sr, "deferred_reward")
        H.c(f"{H.lv(rw, 'd')} = nondet_bool(); {H.lv(rw, 'Some.0.0')} = nondet_uchar();")
        # the scheduler never defers a reward when the beneficiary is in the transaction's own state (Beneficiary mode contract, C07)
        H.assume(f"{H.lv(rw, 'd')} == 0 || !{H.lv(st, 'present.e', [bene])}")
        H.c(f"{H.lv(outp, 'outcomes.len')} = nondet_usize(); __CPROVER_assume({H.lv(outp, 'outcomes.len')} <= 1);")
        H.cvar("len0", "usize", shared=False); H.cvar("txid", "usize", shared=False)
        H.c(f"len0 = {H.lv(outp, 'outcomes.len')}; txid = len0;")
        for nm in ("caller", "bene_a"):
            H.cvar(nm, "unsigned char", shared=False)
        H.c(f"caller = {H.lv(tx, 'caller')}; bene_a = {bene};")
        H.cvar("has_reward", "_Bool", shared=False); H.cvar("reward", WIDE, shared=False)
        H.c(f"has_reward = {H.lv(rw, 'd')} == 1; reward = {H.lv(rw, 'Some.0.0')};")
        for a in range(A):
            H.cvar(f"in_state{a}", "_Bool", shared=False)
            H.c(f"in_state{a} = {H.lv(st, 'present.e', [a])};")
        H.call("OrderedCommitter::commit", [H.ref(cm), H.val("txid"), H.ref(tx), VLoc(Loc(sr, [])), H.ref(outp)], res)
        d = H.lv(res, "d")
        ok, err = H.variant(res, "", "Ok"), H.variant(res, "", "Err")
        oc = H.nav(res, "Ok.0")
        committed = f"({d} == {ok} && {H.lv(oc, 'd')} == {H.variant(oc, '', 'Committed')})"
        fallback = f"({d} == {ok} && {H.lv(oc, 'd')} == {H.variant(oc, '', 'NeedsSequentialFallback')})"
        e = H.nav(res, "Err.0")
        check = f"(!{H.lv(cm, 'disable_nonce_check')})"
        expect = "(com_exists[caller] ? com_nonce[caller] : (u64)0)"
        nonce = H.lv(tx, "nonce")
        nonce_ok = f"({nonce} == {expect} && !({nonce} == (u64)~(u64)0 && {expect} == (u64)~(u64)0))"
        fault1 = f"({check} && com_fault[caller])"
        fault2 = f"(!{fault1} && has_reward && com_fault[bene_a] && (!{check} || {nonce_ok}))"
        H.assert_(f"{fault1} == ({d} == {err} && {H.lv(e, 'error.Database.0')} == 60 + caller && lookups[bene_a] == (caller == bene_a ? 1 : 0))" if False else
                  f"!{fault1} || ({d} == {err} && {H.lv(e, 'txid')} == txid && {H.lv(e, 'error.d')} == {H.variant(e, 'error', 'Database')} && {H.lv(e, 'error.Database.0')} == 60 + caller)",
                  "a fault reading the sender's committed account is returned with the transaction index")
        H.assert_(f"!(!{fault1} && {check} && !{nonce_ok}) || {fallback}",
                  "nonce mismatch against COMMITTED state (too low, too high, or overflow) leaves the transaction to sequential fallback")
        H.assert_(f"!{fallback} || ({check} && !{nonce_ok})", "fallback is requested only for a nonce mismatch with the check enabled")
        H.assert_(f"!(!{fault1} && !{fault2} && (!{check} || {nonce_ok})) || {committed}", "otherwise the speculative result is committed")
        H.assert_(f"!{committed} || (!{check} || {nonce_ok})", "a result is only committed when its nonce matches committed state (or the check is disabled)")
        H.assert_(f"!{fault2} || ({d} == {err} && {H.lv(e, 'txid')} == txid && {H.lv(e, 'error.Database.0')} == 60 + bene_a)", "a fault reading the fee recipient is returned with the transaction index")
        H.assert_(f"{committed} == (commits == 1) && commits <= 1", "state is committed exactly once, and only for a committed outcome")
        H.assert_(f"{H.lv(outp, 'outcomes.len')} == len0 + ({committed} ? 1 : 0)", "an outcome is appended exactly for a committed result (a skipped / failed commit changes nothing)")
        H.assert_(f"!{committed} || ({H.lv(oc, 'Committed.0.0')} == len0 + 1 && {H.lv(outp, 'outcomes.e.Executed.0.id', ['len0 < 2 ? len0 : 0'])} == 77)", "the committed boundary advances by one and the outcome is this transaction's result")
        H.assert_(f"{check} || lookups[caller] == ((has_reward && caller == bene_a) ? 1 : 0)", "with the nonce check disabled the sender's nonce is never looked up")
        cacc = H.nav(cst, "vals.e")
        for a in range(A):
            isb = f"(bene_a == {a} && has_reward)"
            H.assert_(f"!{committed} || {H.lv(cst, 'present.e', [a])} == (in_state{a} || {isb})", f"committed state holds account {a} iff the transaction touched it or it is the rewarded fee recipient")
            H.assert_(f"!({committed} && in_state{a}) || ({H.lv(cacc, 'info.nonce', [a])} == {H.lv(acc, 'info.nonce', [a])} && {H.lv(cacc, 'info.balance', [a])} == {H.lv(acc, 'info.balance', [a])} && {H.lv(cacc, 'status', [a])} == {H.lv(acc, 'status', [a])})",
                      f"account {a} of the speculative state is committed unchanged")
            sumv = f"(({WIDE})((com_exists[{a}] ? com_balance[{a}] : 0) + reward))"
            ovf = f"({sumv} < reward)"
            H.assert_(f"!({committed} && {isb}) || ({H.lv(cacc, 'info.balance', [a])} == ({ovf} ? (com_exists[{a}] ? com_balance[{a}] : 0) : {sumv}) && "
                      f"{H.lv(cacc, 'info.nonce', [a])} == (com_exists[{a}] ? com_nonce[{a}] : 0) && {H.lv(cacc, 'info.code_hash', [a])} == (com_exists[{a}] ? com_code_hash[{a}] : 1) && "
                      f"({H.lv(cacc, 'status', [a])} & 4) != 0)",
                      f"fee recipient {a}: exactly one checked-add credit on the COMMITTED account (absent = default account), other fields preserved, marked touched")
            H.assert_(f"!({committed} && {isb} && com_exists[{a}]) || ({H.lv(cacc, 'info.code.d', [a])} == 1 && {H.lv(cacc, 'info.code.Some.0.id', [a])} == (unsigned char)(40 + {a}))",
                      f"fee recipient {a}: the inline bytecode the committed account carries (e.g. an in-block EIP-7702 designator) survives the credit")
        H.cover(f"{fallback} && {nonce} > {expect}", "nonce too high")
        H.cover(f"{committed} && has_reward", "committed with a deferred reward")
        H.cover(f"{d} == {err}", "database fault")
        H.cover(f"{committed} && !{check}", "committed with the nonce check disabled")
        return H
    return b


def build_h4():
    """the sequential replay's nonce-overflow pre-check: fires exactly when revm's saturating nonce bump would otherwise hide an overflow"""
    def b(tr):
        H = hz.Harness(tr, "c03_h4")
        for nm, ct in (("com_exists", "_Bool"), ("com_fault", "_Bool"), ("com_balance", WIDE), ("com_nonce", "u64"), ("com_code_hash", WIDE), ("lookups", "unsigned char")):
            H.cvar(nm, ct, dims=[A], shared=False)
        H.cvar("commits", "unsigned char", shared=False); H.cvar("dis", "_Bool", shared=False)
        H.c("commits = 0; dis = nondet_bool();")
        for a in range(A):
            H.c(f"com_exists[{a}] = nondet_bool(); com_fault[{a}] = nondet_bool(); com_balance[{a}] = nondet_uchar(); com_nonce[{a}] = nondet_usize(); com_code_hash[{a}] = nondet_uchar(); lookups[{a}] = 0;")
        db = H.local("db", "DB")
        tx = H.local("tx", "TxEnv")
        tr._c03_state = H.local("committed_state", "EvmState")
        res = H.local("res", "Result<(), EVMError<DBError>>")
        H.c(f"{H.lv(tx, 'caller')} = nondet_uchar(); __CPROVER_assume({H.lv(tx, 'caller')} < {A}); {H.lv(tx, 'nonce')} = nondet_usize();")
        H.call("reject_nonce_overflow", [H.ref(db), H.val("dis", "_Bool"), H.ref(tx)], res)
        c_ = H.lv(tx, "caller"); n_ = H.lv(tx, "nonce")
        MAXN = "18446744073709551615UL"
        state_nonce = f"(com_exists[{c_}] ? com_nonce[{c_}] : 0)"
        need = f"(!dis && {n_} == {MAXN})"
        err = f"({H.lv(res, 'd')} == {H.variant(res, '', 'Err')})"
        e = H.nav(res, "Err.0")
        H.assert_(f"!(!{need}) || !{err}", "the pre-check passes (revm's own validation decides) unless nonce checking is on and the tx nonce is u64::MAX")
        H.assert_(f"!({need} && com_fault[{c_}]) || ({err} && {H.lv(e, 'd')} == {H.variant(e, '', 'Database')} && {H.lv(e, 'Database.0')} == 60 + {c_})", "a database fault while reading the sender is returned unchanged")
        H.assert_(f"!({need} && !com_fault[{c_}]) || ({err} == ({state_nonce} == {MAXN}))", "rejected iff the sender's state nonce is u64::MAX as well (absent sender = 0)")
        H.assert_(f"!({need} && !com_fault[{c_}] && {err}) || ({H.lv(e, 'd')} == {H.variant(e, '', 'Transaction')} && {H.lv(e, 'Transaction.0.code')} == 200)",
                  "the reason is InvalidTransaction::NonceOverflowInTransaction")
        H.cover(f"{err} && {need} && !com_fault[{c_}]", "overflow rejected"); H.cover(f"!{err} && {need}", "MAX tx nonce on a lower state nonce passes the pre-check")
        return H
    return b


def specs(tier):
    import c04
    out = [Spec("h1_commit_nonce", build_h1(), cfg=cfg(), unwind=4, timeout=2700,
                desc="real OrderedCommitter::commit for every tx nonce / committed sender account / speculative post-state / reward / fault",
                bounds={"addresses": A, "value_bits": 8})]
    out.append(Spec("h4_replay_nonce_overflow", build_h4(), cfg=cfg(), unwind=4, timeout=1800,
                    desc="real reject_nonce_overflow (sequential replay pre-check) for every tx nonce / sender account / setting / fault", bounds={"addresses": A}))
    for s in c04.specs(tier):
        if s.name == "h3_seq_suffix":
            s.name = "h2_seq_suffix"
            out.append(s)
        elif s.name == "h2_commit_loop":
            s.name = "h3_commit_loop"
            out.append(s)
    return out
