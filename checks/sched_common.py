"""Shared pieces of the scheduler-level kernels (C02..C06): type abstractions, state havoc helpers."""
import revm_types
from revm_types import unit, scalar
from translate import StructN, ScalarN, UnitN, Loc, VAgg, VRef, VScalar, VLoc, TranslateError
from rtypes import parse_type

# tracing: the static level check `Level <= LevelFilter` is modelled as false (logging disabled), every call site
# of the event-construction code is then dead (environment assumption, listed in evidence)
TRACING_DEAD = [r"LevelFilter::current", r"DefaultCallsite", r"Interest::", r"__macro_support", r"Metadata::", r"FieldSet::",
                r"tracing::field::", r"closure@[^}]*tracing-", r"^debug::<", r"Event::"]


def m_level_le(tr, c):
    c.ret(VScalar("0", "_Bool"))


def t_spec_result(tr, ty, name, dims, storage, g=None):
    """SpeculativeResult / ExecutionResult / ResultAndState: an opaque identity (grevm's scheduler only moves it)"""
    s = StructN(ty, name, dims, storage, "Opaque")
    s.fields.append(ScalarN(None, name + "_id", dims, storage, "unsigned char"))
    s.names.append("id")
    return s


def overrides(extra=None):
    ov = revm_types.base_overrides()
    for k in ("ParallelState", "Address", "MVMemory", "DashMap", "AHashMap", "HashMap", "AHashSet", "HashSet",
              "DelegatedSafetyConfig", "Beneficiary", "IncarnationAccesses"):
        ov[k] = unit
    del ov["GrevmConfig"]
    for k in ("SpeculativeResult", "ExecutionResult"):
        ov[k] = t_spec_result
    if extra:
        ov.update(extra)
    return ov


def cfg(N, stubs=None, extra_types=None, **kw):
    c = {"type_overrides": overrides(extra_types), "stubs": stubs or {}, "cap": N,
         "noops": [r"metrics", r"ExecuteMetricsCollector", r"Histogram"], "dead_calls": TRACING_DEAD}
    c["stubs"].setdefault("<Level as PartialOrd>::le", m_level_le)
    c["opaque_types"] = [r"tracing", r"^(LevelFilter|Level|Interest|Metadata|FieldSet|ValueSet|DefaultCallsite|Field|DisplayValue|DebugValue|Event|Identifier)$"]
    c.update(kw)
    return c


def freeze_sched(H, S, N):
    H.freeze(S, "block_size", f"((usize){N})")
    for p in ("tx_states.len", "tx_results.len", "txs.0.len"):
        try:
            H.freeze(S, p, f"((usize){N})")
        except TranslateError:
            pass
    for p in ("scheduler_ctx.num_txs", "tx_dependency.num_txs", "tx_dependency.dependent_state.len", "tx_dependency.affect_txs.len",
              "scheduler_ctx.lower_timestamps.len", "scheduler_ctx.unconfirmed_timestamps.len", "scheduler_ctx.execution_frontier.executed.len"):
        try:
            H.freeze(S, p, f"((usize){N})")
        except TranslateError:
            pass


def havoc_abort(H, S, N):
    """arbitrary abort flag and (optional) abort reason"""
    rv = H.nav(S, "abort_reason.val")
    H.c(f"{H.lv(S, 'abort')} = nondet_bool(); {H.lv(S, 'abort_reason.set')} = nondet_bool();")
    H.c(f"{H.lv(rv, 'd')} = nondet_uchar(); __CPROVER_assume({H.lv(rv, 'd')} < {len(rv.variants)});")
    H.c(f"{H.lv(rv, 'FatalEvmError.0')} = nondet_usize();")
    H.c(f"{H.lv(rv, 'ParallelError.txid')} = nondet_usize();")
    ce = H.nav(rv, "CommitError.0")
    H.c(f"{H.lv(ce, 'txid')} = nondet_usize(); {H.lv(ce, 'error.d')} = nondet_uchar(); __CPROVER_assume({H.lv(ce, 'error.d')} < 5);")
    H.c(f"{H.lv(ce, 'error.Database.0')} = nondet_uchar();")


def havoc_tx_results(H, S, N):
    trn = H.nav(S, "tx_results.e.data")
    er = H.nav(trn, "Some.0.execute_result")
    for i in range(N):
        H.c(f"{H.lv(S, 'tx_results.e.locked', [i])} = 0;")
        H.c(f"{H.lv(trn, 'd', [i])} = nondet_uchar(); __CPROVER_assume({H.lv(trn, 'd', [i])} < 2);")
        H.c(f"{H.lv(er, 'd', [i])} = nondet_uchar(); __CPROVER_assume({H.lv(er, 'd', [i])} < 2);")
        H.c(f"{H.lv(er, 'Ok.0.id', [i])} = nondet_uchar();")
        H.c(f"{H.lv(er, 'Err.0.d', [i])} = nondet_uchar(); __CPROVER_assume({H.lv(er, 'Err.0.d', [i])} < 5);")
        H.c(f"{H.lv(er, 'Err.0.Database.0', [i])} = nondet_uchar(); {H.lv(er, 'Err.0.Transaction.0.code', [i])} = nondet_uchar();")
        H.c(f"{H.lv(er, 'Err.0.Custom.0.tag', [i])} = nondet_uchar();")


def init_sched(H, S, N):
    """scheduler freshly built (Scheduler::build), coordinators not registered"""
    H.c(f"{H.lv(S, 'started')} = 1; {H.lv(S, 'abort')} = 0; {H.lv(S, 'abort_reason.set')} = 0;")
    H.c(f"{H.lv(S, 'scheduler_ctx.committed')} = 0; {H.lv(S, 'scheduler_ctx.finality')} = 0; {H.lv(S, 'scheduler_ctx.validation')} = 0;")
    H.c(f"{H.lv(S, 'commit_wait.thread.set')} = 0; {H.lv(S, 'finality_wait.thread.set')} = 0;")
    H.c(f"{H.lv(S, 'tx_dependency.index')} = 0;")
    for i in range(N):
        H.c(f"{H.lv(S, 'tx_dependency.dependent_state.e.locked', [i])} = 0; {H.lv(S, 'tx_dependency.dependent_state.e.data.onboard', [i])} = 1; "
            f"{H.lv(S, 'tx_dependency.dependent_state.e.data.dependency.d', [i])} = 0; {H.lv(S, 'tx_dependency.affect_txs.e.locked', [i])} = 0;")


# ---- full-scheduler abstraction: real MV memory / read-write sets over abstract location ids --------------------
def t_loc(tr, ty, name, dims, storage, g=None):
    """LocationAndType: an abstract location id (the scheduler never looks inside a location)"""
    s = StructN(ty, name, dims, storage, "LocId")
    s.fields.append(ScalarN(None, name + "_id", dims, storage, "unsigned char"))
    s.names.append("id")
    return s


def loc_key(tr, loc):
    return tr.lv(Loc(loc.node.fields[0], loc.idxs))


def mv_overrides(extra=None):
    ov = revm_types.base_overrides()
    for k in ("ParallelState", "Address", "DelegatedSafetyConfig", "Beneficiary", "MemoryValue"):
        ov[k] = unit
    del ov["GrevmConfig"]
    for k in ("SpeculativeResult", "ExecutionResult", "BeneficiaryReadVersion"):
        ov[k] = t_spec_result
    ov["LocationAndType"] = t_loc
    if extra:
        ov.update(extra)
    return ov


def mv_cfg(N, L=2, stubs=None, extra_types=None, **kw):
    c = cfg(N, stubs=stubs, **kw)
    c["type_overrides"] = mv_overrides(extra_types)
    c["key_fns"] = {"LocationAndType": loc_key}
    c["key_cap"] = L
    c["btree_cap"] = N
    c["set_iter_cap"] = max(N, L)
    return c


def bene_true_stubs():
    def ret_true(tr, c):
        c.ret(VScalar("1", "_Bool"))
    def nop(tr, c):
        pass    # result left unconstrained (nondeterministic): only reachable for beneficiary read versions, which these kernels exclude
    return {"Beneficiary::record_estimate": ret_true, "Beneficiary::record_execution": ret_true, "Beneficiary::invalidate": ret_true,
            "Beneficiary::validate": nop}


def init_ctx(H, S, N):
    H.c(f"{H.lv(S, 'scheduler_ctx.validation_resets')} = 0; {H.lv(S, 'scheduler_ctx.logical_clock')} = 1; {H.lv(S, 'scheduler_ctx.execution_frontier.frontier')} = 0;")
    for i in range(N):
        H.c(f"{H.lv(S, 'scheduler_ctx.lower_timestamps.e', [i])} = 0; {H.lv(S, 'scheduler_ctx.unconfirmed_timestamps.e', [i])} = 0; "
            f"{H.lv(S, 'scheduler_ctx.execution_frontier.executed.e', [i])} = 0;")


def init_tx_tables(H, S, N, L=2):
    """tx_states Initial/0/None, tx_results None, MV memory empty"""
    st = H.nav(S, "tx_states.e.data")
    trn = H.nav(S, "tx_results.e.data")
    for i in range(N):
        H.c(f"{H.lv(S, 'tx_states.e.locked', [i])} = 0; {H.lv(st, 'status.d', [i])} = 0; {H.lv(st, 'incarnation', [i])} = 0; {H.lv(st, 'dependency.d', [i])} = 0;")
        H.c(f"{H.lv(S, 'tx_results.e.locked', [i])} = 0; {H.lv(trn, 'd', [i])} = 0;")
        for j in range(N):
            H.c(f"{H.lv(S, 'tx_dependency.affect_txs.e.data.present.e', [i, j])} = 0;")
    mv = H.nav(S, "mv_memory.slots.e")
    for l in range(L):
        H.c(f"{H.lv(mv, 'locked', [l])} = 0; {H.lv(mv, 'data.present', [l])} = 0;")
        for i in range(N):
            H.c(f"{H.lv(mv, 'data.val.present.e', [l, i])} = 0;")
