"""C06  Results do not depend on worker count, thresholds, sequential mode or timing  (what a solver reaches).

Equality of two real EVM runs has no encodable oracle here; decided instead, on the real code:

  h1_replay_global_txid   : the sequential replay closure (fallback.rs) hands the reserve planner the loop's GLOBAL transaction
                            index (not an index rebased at the replay start) for every transaction it replays, installs the
                            transaction before running the handler, and commits the state only for a successful outcome.
  h1b_replay_loop_global_txid : the loop around that closure (execute_sequential_suffix, = C04/h3) calls it with consecutive GLOBAL
                            indices start, start+1, ... and the block's own transaction at that index, from any start boundary.
  h2_parallel_global_txid : the parallel executor (executor.rs) hands the planner the incarnation's own transaction index
                            (= C11/h2 with the index recorded).
  h3_*                    : iteration-order independence: the kernels below iterate hash sets / maps in an order chosen by
                            the solver and their assertions hold for every order -- publish_writes over the journal map
                            (= C08/h3), TxDependency::remove over the reverse-edge set (= C16/step_S), the reserve
                            violation scan over candidates (= C13/h1), execute_task's write-set scans (= C02/step_R).
Path selection by configuration only (parallel_execute_inner's first statement) is not encoded: the function's MIR is dominated
by thread::scope / spawn plumbing that the translator does not cover (read, not decided).
"""
from run import Spec
import harness as hz
from translate import Loc, VAgg, VRef, VScalar, VLoc, VUnit, TranslateError
import revm_types
import sched_common as sc
import c11
import c04
import c08
import c13
import c16
import c02


def replay_stubs():
    st = c11.exec_stubs()

    def from_planner(tr, c):
        txid = tr.as_scalar(c.args[0]).expr
        tr.emit(f"planner_txid = {txid}; order[n_events < 8 ? n_events : 7] = 8; n_events++;")
        c.ret(VUnit())

    def reject(tr, c):
        d = c.dest()
        n = d.node
        tr.emit(f"order[n_events < 8 ? n_events : 7] = 1; n_events++; {tr.lv(Loc(n.discr, d.idxs))} = reject_fails ? {n.vindex('Err')} : {n.vindex('Ok')};")
        e = n.variants[n.vindex('Err')][1].fields[0]
        tr.emit(f"{tr.lv(Loc(e.discr, d.idxs))} = {e.vindex('Transaction')};")

    def commit(tr, c):
        tr.emit("order[n_events < 8 ? n_events : 7] = 9; n_events++;")

    def into_immediate(tr, c):
        d = c.dest()
        tr.emit(f"order[n_events < 8 ? n_events : 7] = 5; n_events++; {tr.lv(Loc(d.node.fields[0], d.idxs))} = 9;")
    st.update({"ReserveMode::from_planner": from_planner, "reject_nonce_overflow": reject, "<&mut ParallelState as DatabaseCommit>::commit": commit, "<&ParallelState as DatabaseCommit>::commit": commit,
               "<ParallelState as DatabaseCommit>::commit": commit, "GrevmHandlerOutput::into_immediate_result": into_immediate})
    return st


def replay_cfg():
    c = c11.exec_cfg()
    c["stubs"] = replay_stubs()
    return c


def build_h1():
    def b(tr):
        H = hz.Harness(tr, "c06_h1")
        H.cvar("order", "unsigned char", dims=[8], shared=False); H.cvar("n_events", "unsigned char", shared=False)
        H.cvar("run_fails", "_Bool", shared=False); H.cvar("reject_fails", "_Bool", shared=False); H.cvar("planner_txid", "usize", shared=False); H.cvar("txid", "usize", shared=False)
        H.c("n_events = 0; run_fails = nondet_bool(); reject_fails = nondet_bool(); planner_txid = 999; txid = nondet_usize();")
        for k in range(8):
            H.c(f"order[{k}] = 0;")
        S = H.local("S", "Scheduler<DB>")
        tr._c11_idb = H.local("pstate", "ParallelState<DB>")
        tr._c11_evm = H.local("evm_inner", "Context")
        evm = H.local("evm", "Evm")
        tx = H.local("tx", "TxEnv")
        res = H.local("res", "Result<ExecutionResult, EVMError<DBError>>")
        clo = tr.closures.get(next(k for k in tr.closures if tr.closures[k].name.endswith("replay_uncommitted_suffix::{closure#0}")))
        env = VAgg([VRef(evm, []), VRef(S, [])])
        envn = tr.alloc_like(env, "cenv", tr.cur.storage)
        envn.ty = tr.parse_ty(clo.locals[1].lstrip("&").replace("mut ", "", 1).strip())
        tr.store(Loc(envn, []), env)
        tr.inline(clo, [VRef(envn, []), H.val("txid"), H.ref(tx)], Loc(res, []))
        H.assert_("reject_fails || planner_txid == txid", "the reserve planner is queried with the loop's global transaction index")
        H.assert_("!reject_fails || (n_events == 1 && order[0] == 1)", "a nonce-overflow rejection runs nothing else")
        H.assert_("reject_fails || run_fails || (order[0] == 1 && order[1] == 2 && order[2] == 8 && order[3] == 3 && order[4] == 4 && order[5] == 5 && order[6] == 9 && n_events == 7)",
                  "successful replay step: overflow check, set_tx, planner, handler run, finalize, immediate result, commit -- each once, in order")
        H.assert_("reject_fails || !run_fails || (order[0] == 1 && order[1] == 2 && order[2] == 8 && order[3] == 3 && order[4] == 4 && n_events == 5)",
                  "failed replay step: finalized but NOT committed")
        H.cover("!reject_fails && !run_fails", "successful step"); H.cover("!reject_fails && run_fails", "failed step")
        return H
    return b


def build_h2():
    def b(tr):
        H = hz.Harness(tr, "c06_h2")
        H.cvar("order", "unsigned char", dims=[8], shared=False); H.cvar("n_events", "unsigned char", shared=False)
        H.cvar("run_fails", "_Bool", shared=False); H.cvar("planner_txid", "usize", shared=False); H.cvar("txid", "usize", shared=False)
        H.c("n_events = 0; run_fails = nondet_bool(); planner_txid = 999; txid = nondet_usize();")
        ex = H.local("executor", "GrevmExecutor<DB>")
        tr._c11_idb = H.local("idb", "IncarnationDb<DB>")
        tr._c11_evm = H.local("evm_inner", "Context")
        tx = H.local("tx", "TxEnv")
        out = H.local("out", "IncarnationExecution<DBError>")
        H.call("<GrevmExecutor as ParallelTransactionExecutor>::execute_incarnation", [H.ref(ex), VAgg([H.val("txid"), H.val("2")]), VLoc(Loc(tx, []))], out)
        H.assert_("planner_txid == txid", "the parallel executor queries the reserve planner with the incarnation's own transaction index")
        H.cover("run_fails", "failed attempt")
        return H
    return b


def specs(tier):
    out = [Spec("h1_replay_global_txid", build_h1(), cfg=replay_cfg(), unwind=3, timeout=1800,
                desc="real sequential-replay closure with revm's Evm / handler / state as recording ghosts", bounds={}),
           Spec("h2_parallel_global_txid", build_h2(), cfg=replay_cfg(), unwind=3, timeout=1800,
                desc="real GrevmExecutor::execute_incarnation with the planner query recorded", bounds={})]
    pick = [(c04, "h3_seq_suffix", "h1b_replay_loop_global_txid"), (c08, "h3_publish", "h3_order_publish_writes"), (c16, "step_S_n3", "h3_order_dependency_release"),
            (c13, "h1_violation_predicate", "h3_order_reserve_scan"), (c02, "step_R_n3", "h3_order_execute_task")]
    for mod, name, new in pick:
        for s in mod.specs(tier):
            if s.name == name:
                s.name = new
                out.append(s)
    return out
