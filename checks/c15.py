"""C15  Validation cursors never lose a pending validation or pass an unexecuted tx.

Harnesses (all on the real MIR of src/scheduler/cursor.rs + src/scheduler/context.rs):
  h1_claim_rewind : claimers (next_validation_idx) || rewind_validation_to(R) [|| executed(P)], then a sequential
                    drain on a private snapshot.
  h2_frontier     : publishers executed(p_k) in any order || reader execution_frontier().
  (the timestamp-order clause of C15 is decided together with C02: checks/c02.py, harness fin_*)
"""
from run import Spec
import harness as hz
from translate import Loc


def loops(N, cas_retries=2):
    return {
        "ExecutionFrontier::advance": {1: (N + 1, "assert"), 2: (N + 1, "assert")},
        # CAS retry loop: 1 attempt + `cas_retries` retries; schedules that make one claim fail more often are
        # outside the bound (assume)
        "claim_before": {"*": (1 + cas_retries, "assume")},
    }


def init_ctx(H, ctx, N, frontier="m", validation="v0", symbolic_flags=True):
    for p in ("execution_frontier.executed.len", "lower_timestamps.len", "unconfirmed_timestamps.len", "num_txs"):
        H.freeze(ctx, p, f"((usize){N})")
    H.c(f"""
    {H.lv(ctx, 'execution_frontier.frontier')} = {frontier};
    {H.lv(ctx, 'validation')} = {validation};
    {H.lv(ctx, 'logical_clock')} = 1;
    {H.lv(ctx, 'finality')} = 0; {H.lv(ctx, 'committed')} = 0; {H.lv(ctx, 'validation_resets')} = 0;
    """)
    for j in range(N):
        ex = H.lv(ctx, "execution_frontier.executed.e", [j])
        if symbolic_flags:
            # representation invariant: everything below the frontier has executed; flags above are arbitrary
            H.c(f"{ex} = nondet_bool(); __CPROVER_assume({j} >= {frontier} || {ex});")
        else:
            H.c(f"{ex} = ({j} < {frontier});")
        H.c(f"{H.lv(ctx, 'lower_timestamps.e', [j])} = 0; {H.lv(ctx, 'unconfirmed_timestamps.e', [j])} = 0;")


def snapshot(H, node, name="snap"):
    snap = H.tr.clone(node, name, [], H.main.storage)
    H.tr.copy(Loc(snap, []), Loc(node, []))
    return snap


def build_h1(N, claims=(2, 1), rewinders=1, publisher=True):
    def build(tr):
        H = hz.Harness(tr, "c15_h1")
        ctx = H.shared("ctx", "SchedulerContext")
        H.param("m"); H.param("v0")
        nclaims = sum(claims)
        res = [H.shared(f"r{k}", "Option<usize>") for k in range(nclaims)]
        for k in range(nclaims):
            H.param(f"E{k}")
        for k in range(rewinders):
            H.param(f"RI{k}")
        H.param("PJ")
        H.cvar("claimed", "unsigned char", dims=[N], shared=False)
        H.c(f"m = nondet_usize(); __CPROVER_assume(m <= {N});")
        H.c(f"v0 = nondet_usize(); __CPROVER_assume(v0 <= m);")
        for k in range(nclaims):
            H.c(f"E{k} = nondet_usize(); __CPROVER_assume(E{k} <= {N});")
        for k in range(rewinders):
            H.c(f"RI{k} = nondet_usize(); __CPROVER_assume(RI{k} <= {N});")
        H.c(f"PJ = nondet_usize(); __CPROVER_assume(PJ < {N});")
        init_ctx(H, ctx, N)
        k = 0
        for ti, cnt in enumerate(claims):
            t = H.thread(f"claimer{ti}"); H.enter(t)
            for _ in range(cnt):
                H.call("SchedulerContext::next_validation_idx", [H.ref(ctx), H.val(f"E{k}")], res[k])
                k += 1
        for k in range(rewinders):
            t = H.thread(f"rewinder{k}"); H.enter(t)
            H.call("SchedulerContext::rewind_validation_to", [H.ref(ctx), H.val(f"RI{k}")])
        if publisher:
            t3 = H.thread("publisher"); H.enter(t3)
            H.call("SchedulerContext::executed", [H.ref(ctx), H.val("PJ")])
        H.post()
        # quiescent snapshot: the drain and all end-state assertions run on a thread-private copy of the state
        sctx = snapshot(H, ctx)
        for p in ("execution_frontier.executed.len", "lower_timestamps.len", "unconfirmed_timestamps.len", "num_txs"):
            H.freeze(sctx, p, f"((usize){N})")
        ex = lambda i: H.lv(sctx, "execution_frontier.executed.e", [i])
        # flags are monotone and only `publisher` sets one: a claimed index that is unexecuted at the end was
        # unexecuted when claimed; the publisher's own index is excused only if it is executed at the end (the solver
        # may always schedule the publisher after the claim, so a premature claim of PJ is still found)
        for i in range(N):
            H.c(f"claimed[{i}] = 0;")
        for k in range(nclaims):
            d, v = H.lv(res[k], "d"), H.lv(res[k], "Some.0")
            some = H.variant(res[k], "", "Some")
            H.c(f"if ({d} == {some}) {{")
            H.assert_(f"{v} < E{k}", "claimed index is below the caller's execution limit")
            H.assert_(f"{v} < {N} && {ex(v)}", "claimed index has completed an execution (below the frontier)")
            H.c(f"claimed[{v} < {N} ? {v} : 0]++; }}")
        dr = H.local("dr", "Option<usize>")
        H.cvar("di", "int", shared=False)
        H.c(f"for (di = 0; di < {N + 1}; di++) {{")
        H.call("SchedulerContext::next_validation_idx", [H.ref(sctx), H.val(f"((usize){N})")], dr)
        d, v = H.lv(dr, "d"), H.lv(dr, "Some.0")
        H.c(f"if ({d} != {H.variant(dr, '', 'Some')}) break;")
        H.assert_(f"{v} < {N} && {ex(v)}", "drained index has completed an execution")
        H.c(f"claimed[{v} < {N} ? {v} : 0]++;")
        H.c("}")
        H.assert_(f"{d} != {H.variant(dr, '', 'Some')}", "drain terminates within n+1 claims")
        H.cvar("fu", shared=False)
        H.c(f"fu = {N};")
        for i in reversed(range(N)):
            H.c(f"if (!{ex(i)}) fu = {i};")
        rmin = "RI0" if rewinders == 1 else "(RI0 < RI1 ? RI0 : RI1)"
        for i in range(N):
            H.assert_(f"!({i} >= {rmin} && {i} < v0 && {i} < fu) || claimed[{i}] >= 1",
                      f"rewound index {i} (between the rewind target and the old cursor) is offered again")
            H.assert_(f"!({i} >= v0 && {i} < fu) || claimed[{i}] >= 1",
                      f"index {i} between the old cursor and the frontier is offered")
            H.assert_(f"!({i} >= fu) || claimed[{i}] == 0", f"index {i} at or beyond the frontier is never handed out")
            H.assert_(f"!({i} < {rmin} && {i} < v0) || claimed[{i}] == 0",
                      f"index {i} below every rewind target and below the old cursor is not re-offered")
        H.assert_(f"{H.lv(sctx, 'validation')} >= fu", "cursor parked at the frontier after the drain")
        H.cover(f"{rmin} < v0 && {rmin} < fu && claimed[{rmin} < {N} ? {rmin} : 0] >= 1",
                "a real rewind happened and its index was claimed again")
        H.cover(f"{H.lv(res[0], 'd')} == 1 && {H.lv(res[nclaims - 1], 'd')} == 1", "concurrent claims succeeded")
        return H
    return build


def build_h2(N, publishers=3, reads=2):
    def build(tr):
        H = hz.Harness(tr, "c15_h2")
        ctx = H.shared("ctx", "SchedulerContext")
        H.param("m")
        for k in range(publishers):
            H.param(f"P{k}")
        cur = [H.shared(f"cur{k}", "usize") for k in range(reads)]
        # flags observed by the reader right after each frontier read (thread-private copies, compared afterwards)
        seen = [[H.cvar(f"seen{k}_{i}", "_Bool") for i in range(N)] for k in range(reads)]
        H.c(f"m = nondet_usize(); __CPROVER_assume(m <= {N});")
        for k in range(publishers):
            H.c(f"P{k} = nondet_usize(); __CPROVER_assume(P{k} < {N});")
        init_ctx(H, ctx, N, validation="0")
        ex = lambda i: H.lv(ctx, "execution_frontier.executed.e", [i])
        # start from a quiescent state: frontier == first unexecuted index
        H.c(f"if (m < {N}) __CPROVER_assume(!{ex('m')});")
        for k in range(publishers):
            t = H.thread(f"pub{k}"); H.enter(t)
            H.call("SchedulerContext::executed", [H.ref(ctx), H.val(f"P{k}")])
        t = H.thread("reader"); H.enter(t)
        for k in range(reads):
            H.call("SchedulerContext::execution_frontier", [H.ref(ctx)], cur[k])
            H.c("__CPROVER_atomic_begin();")
            for i in range(N):
                H.c(f"{seen[k][i]} = {ex(i)};")
            H.c("__CPROVER_atomic_end();")
        H.post()
        sctx = snapshot(H, ctx)
        for p in ("execution_frontier.executed.len", "lower_timestamps.len", "unconfirmed_timestamps.len", "num_txs"):
            H.freeze(sctx, p, f"((usize){N})")
        sex = lambda i: H.lv(sctx, "execution_frontier.executed.e", [i])
        for k in range(reads):
            c = H.lv(cur[k])
            H.assert_(f"{c} <= {N}", "frontier within the block")
            for i in range(N):
                H.assert_(f"!({i} < {c}) || {seen[k][i]}", f"frontier value never passes unexecuted index {i}")
        if reads > 1:
            H.assert_(f"{H.lv(cur[0])} <= {H.lv(cur[1])}", "frontier values read by one thread are monotone")
        H.cvar("fu", shared=False)
        H.c(f"fu = {N};")
        for i in reversed(range(N)):
            H.c(f"if (!{sex(i)}) fu = {i};")
        fin = H.local("fin", "usize")
        H.assert_(f"{H.lv(sctx, 'execution_frontier.frontier')} <= fu", "stored frontier never beyond first unexecuted")
        H.call("SchedulerContext::execution_frontier", [H.ref(sctx)], fin)
        H.assert_(f"{H.lv(fin)} == fu", "at quiescence the frontier has caught up with the first unexecuted index")
        for k in range(publishers):
            H.assert_(f"{sex(f'P{k}')} || P{k} < m", f"publisher {k} flag set unless already behind the frontier")
        H.cover(f"fu == {N} && m == 0", "whole block published from an empty frontier")
        if reads > 1:
            H.cover(f"{H.lv(cur[0])} < {H.lv(cur[1])}", "reader observed the frontier moving")
        return H
    return build


def specs(tier):
    out = []
    out.append(Spec("h1_claim_rewind_n3", build_h1(3, claims=(1, 1), publisher=False), cfg={"cap": 3, "loops": loops(3)},
                    unwind=8, timeout=2700,
                    desc="real next_validation_idx on 2 threads || rewind_validation_to(R) from an arbitrary consistent "
                         "cursor/frontier state, then sequential drain: reissue, limit, no extra claims",
                    bounds={"n": 3, "threads": 3, "spurious_cas_failures_per_thread": 1, "cas_retries": 2,
                            "memory_model": "SC"}))
    out.append(Spec("h2_frontier_n3", build_h2(3, 2, 2), cfg={"cap": 3, "loops": loops(3)}, unwind=8, timeout=2700,
                    desc="real ExecutionFrontier publish/advance/current: 2 publishers (any indices, any order) || reader x2",
                    bounds={"n": 3, "threads": 3, "memory_model": "SC"}))
    # timestamp clause ("a validation that predates a rewind covering it can never make its tx eligible for finality"):
    # the inductive-step kernels of C02 whose roles issue rewinds / validations / finality decisions (real rewind_validation_to,
    # validate, lock_finality_candidate); see checks/c02.py
    import c02
    for s2 in c02.specs(tier):
        if s2.name in ("step_R_n3", "step_V_n3", "step_F_n3", "step_RF_n3"):
            s2.name = "h3_ts_" + s2.name
            out.append(s2)
    if tier == "thorough":
        out.append(Spec("h1_claims21_rewind_pub_n3", build_h1(3, claims=(2, 1), publisher=True),
                        cfg={"cap": 3, "loops": loops(3, 3)}, unwind=8, timeout=3600,
                        desc="h1 with 2+1 claims, a rewinder and a concurrent publisher",
                        bounds={"n": 3, "threads": 4, "spurious_cas_failures_per_thread": 1, "cas_retries": 3}))
        out.append(Spec("h1_two_rewinders_n3", build_h1(3, claims=(1, 1), rewinders=2, publisher=False),
                        cfg={"cap": 3, "loops": loops(3, 3)}, unwind=8,
                        timeout=3600, desc="h1 with two concurrent rewinders",
                        bounds={"n": 3, "threads": 4, "spurious_cas_failures_per_thread": 1, "cas_retries": 3}))
        out.append(Spec("h2_frontier_3pub_n3", build_h2(3, 3, 2), cfg={"cap": 3, "loops": loops(3)}, unwind=8, timeout=3600,
                        desc="h2 with 3 publishers", bounds={"n": 3, "threads": 4}))
        out.append(Spec("h2_frontier_n4", build_h2(4, 2, 2), cfg={"cap": 4, "loops": loops(4)}, unwind=9, timeout=3600,
                        desc="h2 at n=4", bounds={"n": 4, "threads": 3}))
    return out
