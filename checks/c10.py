"""C10  ParallelState is a faithful stand-in for revm State  (read path and commit-side storage glue; concurrent reader).

Real code (MIR -> C): parallel_state.rs {ParallelStateView::db_storage, with_metrics, ParallelCacheState::apply_account_state,
update_storage_slot, get_account_mut}.  The status-transition methods of CacheAccountInfo (selfdestruct / newly_created /
touch_empty_eip161 / change -- mirrors of revm's CacheAccount) are ghosts here that set the documented resulting status
class (storage known after destroy / create / empty-touch); their field-by-field equality with revm is NOT decided.

Oracle = what revm's State serves for the same history: after the committed transaction
  destroyed / created / touched-empty its account  ->  every slot not written by that transaction reads 0,
  a slot it changed                                  ->  the committed value,
  otherwise                                          ->  the value served before (cache or backing store).

  h1_read_then_commit_seq : sequential: cache-filling read, commit, read again (all account classes, slot cached or not)
  h2_reader_vs_commit     : a speculative worker's db_storage(a, s) races the ordered commit of a transaction on a; the
                            commit runs atomically at any conflicting visible operation of the reader (context bound
                            A|B|A) and vice versa; afterwards db_storage(a, s) must serve the oracle value -- a read
                            performed concurrently never changes what the state later serves (findings F1, seed C10-1).
"""
from run import Spec
import harness as hz
from translate import Loc, VAgg, VRef, VScalar, VLoc, VUnit, TranslateError
import revm_types
import revm_models
import sched_common as sc

A = 2
SL = 2
WIDE = "unsigned char"
ST = {"LoadedNotExisting": 0, "Loaded": 1, "LoadedEmptyEIP161": 2, "InMemoryChange": 3, "Changed": 4, "Destroyed": 5, "DestroyedChanged": 6, "DestroyedAgain": 7}
KNOWN = "(({s}) == 0 || ({s}) == 3 || ({s}) == 5 || ({s}) == 6 || ({s}) == 7)"


def _st(tr, loc):
    """lvalue of an AccountStatus (revm-database enum; modelled as its discriminant byte)"""
    n = loc.node
    return tr.lv(Loc(n.discr, loc.idxs)) if n.kind == "enum" else tr.lv(loc)


def _self_info(tr, c):
    v = c.args[0]
    loc = tr.deref(v)
    while loc.node.kind == "ref":
        loc = tr.deref(VLoc(loc))
    return loc


def stubs():
    def is_storage_known(tr, c):
        """revm-database: AccountStatus::is_storage_known"""
        v = c.args[0]
        loc = tr.deref(v) if not (isinstance(v, VLoc) and v.loc.node.kind in ("enum", "scalar")) else v.loc
        c.ret(VScalar(KNOWN.format(s=_st(tr, loc)), "_Bool"))

    def destroyed(tr, c):
        """ghost of CacheAccountInfo::selfdestruct / touch_empty_eip161: account gone, status Destroyed (storage known)"""
        info = _self_info(tr, c)
        tr.emit(f"{tr.lv(Loc(info.node.f('account').discr, info.idxs))} = 0; {_st(tr, Loc(info.node.f('status'), info.idxs))} = nondet_bool() ? {ST['Destroyed']} : {ST['DestroyedAgain']};")

    def newly_created(tr, c):
        """ghost of CacheAccountInfo::newly_created(info, changed_storage): account := info, status InMemoryChange / DestroyedChanged
        (storage known); returns the changed slots' present values"""
        info = _self_info(tr, c)
        acc = info.node.f("account")
        tr.emit(f"{tr.lv(Loc(acc.discr, info.idxs))} = 1; {_st(tr, Loc(info.node.f('status'), info.idxs))} = nondet_bool() ? {ST['InMemoryChange']} : {ST['DestroyedChanged']};")
        tr.store(Loc(acc.variants[1][1].fields[0], info.idxs), c.args[1])
        d = c.dest()
        _slots_out(tr, c.args[2], Loc(d.node.fields[1], d.idxs))

    def change(tr, c):
        """ghost of CacheAccountInfo::change(info, changed_storage): account := info; the status keeps its storage-known class"""
        info = _self_info(tr, c)
        acc = info.node.f("account")
        st = _st(tr, Loc(info.node.f('status'), info.idxs))
        tr.emit(f"{tr.lv(Loc(acc.discr, info.idxs))} = 1; {st} = {KNOWN.format(s=st)} ? {ST['InMemoryChange']} : {ST['Changed']};")
        tr.store(Loc(acc.variants[1][1].fields[0], info.idxs), c.args[1])
        d = c.dest()
        _slots_out(tr, c.args[2], Loc(d.node.fields[1], d.idxs))

    def _slots_out(tr, changed, dst):
        src = changed.loc if isinstance(changed, VLoc) else tr.deref(changed)
        p, vals, keys = src.node.f("present"), src.node.f("vals"), src.node.f("keys")
        dp, dv, dk = dst.node.f("present"), dst.node.f("vals"), dst.node.f("keys")
        for k in range(p.cap):
            tr.emit(f"{dp.elem.name}{hz.sub(dst.idxs + [str(k)])} = {p.elem.name}{hz.sub(src.idxs + [str(k)])};")
            tr.copy(Loc(dk.elem, dst.idxs + [str(k)]), Loc(keys.elem, src.idxs + [str(k)]))
            tr.emit(f"{tr.lv(Loc(dv.elem, dst.idxs + [str(k)]))} = {tr.lv(Loc(vals.elem.f('present_value'), src.idxs + [str(k)]))};")

    def collect_changed(tr, c):
        """`account.storage.into_iter().filter(is_changed).map(into).collect()`: the changed slots as StorageSlot{previous, present}"""
        v = c.args[0]
        loc = v.loc if isinstance(v, VLoc) else tr.deref(v)
        while loc.node.kind == "struct" and loc.node.tag in ("Map", "Filter"):
            loc = Loc(loc.node.f("inner"), loc.idxs)
        m = tr.deref(VLoc(Loc(loc.node.f("map"), loc.idxs)))
        p, vals, keys = m.node.f("present"), m.node.f("vals"), m.node.f("keys")
        d = c.dest()
        dp, dv, dk = d.node.f("present"), d.node.f("vals"), d.node.f("keys")
        for k in range(p.cap):
            slot = Loc(vals.elem, m.idxs + [str(k)])
            o, pv = tr.lv(Loc(slot.node.f('original_value'), slot.idxs)), tr.lv(Loc(slot.node.f('present_value'), slot.idxs))
            tr.emit(f"{dp.elem.name}{hz.sub(d.idxs + [str(k)])} = {p.elem.name}{hz.sub(m.idxs + [str(k)])} && ({o} != {pv});")
            tr.copy(Loc(dk.elem, d.idxs + [str(k)]), Loc(keys.elem, m.idxs + [str(k)]))
            tr.emit(f"{tr.lv(Loc(dv.elem.f('previous_or_original_value'), d.idxs + [str(k)]))} = {o}; {tr.lv(Loc(dv.elem.f('present_value'), d.idxs + [str(k)]))} = {pv};")

    def storage_ref(tr, c):
        a, s = tr.as_scalar(c.args[1]).expr, tr.as_scalar(c.args[2]).expr
        d = c.dest()
        n = d.node
        tr.emit(f"__CPROVER_assume({a} < {A} && {s} < {SL}); db_reads++;")
        tr.emit(f"{tr.lv(Loc(n.discr, d.idxs))} = {n.vindex('Ok')}; {tr.lv(Loc(n.variants[n.vindex('Ok')][1].fields[0], d.idxs))} = db_slot[{a}][{s}];")
    def with_metrics(tr, c):
        """ParallelStateView::with_metrics(f) = f() (+ a latency sample, which is no state)"""
        tr.call_closure(c.inst, c.args[1], [], c.dest())
    return {"ParallelStateView::with_metrics": with_metrics, "AccountStatus::is_storage_known": is_storage_known, "CacheAccountInfo::selfdestruct": destroyed,
            "CacheAccountInfo::touch_empty_eip161": destroyed, "CacheAccountInfo::newly_created": newly_created,
            "CacheAccountInfo::change": change, "<Map as Iterator>::collect": collect_changed,
            "<DB as DatabaseRef>::storage_ref": storage_ref, "<Level as PartialOrd>::le": sc.m_level_le}


def cfg(inject=False):
    ov = revm_types.base_overrides()
    ov.update(revm_models.type_overrides(WIDE))
    for k in ("TransitionAccount", "BuildIdentityHasher"):
        ov[k] = revm_types.unit
    c = {"type_overrides": ov, "stubs": stubs(), "cap": 2, "noops": [r"^metrics::", r"Histogram::", r"duration_micros", r"ExecuteMetricsCollector"], "dead_calls": sc.TRACING_DEAD,
         "opaque_types": [r"tracing"], "key_caps": {"Address": A, "Uint": SL, "U256": SL, "StorageKey": SL, "FixedBytes": 2, "B256": 2, "u64": 2},
         "key_cap": A, "consts": revm_models.consts(), "extra_src": revm_models.extra_src_roots(), "set_iter_cap": 2,
         "aliases": {"EvmState": "HashMap<Address, Account>", "EvmStorage": "HashMap<StorageKey, EvmStorageSlot>",
                     "PlainStorage": "HashMap<StorageKey, StorageValue>", "StorageWithOriginalValues": "HashMap<StorageKey, StorageSlot>"},
         "loops": {"ParallelCacheState::update_storage_slot": {"*": (SL + 1, "assert")}}}
    if inject:
        c["inject"] = True
    return c


class K:
    def __init__(self, H, tr, shared):
        self.H = H
        mk = H.shared if shared else H.local
        self.cache = mk("cache", "ParallelCacheState")
        self.db = mk("backing", "DB")
        self.bh = mk("bh", "DashMap<u64, B256>")
        self.hist = mk("hist", "Histogram")
        self.view = mk("view", "ParallelStateView<DB>")
        tr.store(Loc(H.nav(self.view, "cache"), []), VRef(self.cache, []))
        tr.store(Loc(H.nav(self.view, "database"), []), VRef(self.db, []))
        tr.store(Loc(H.nav(self.view, "block_hashes"), []), VRef(self.bh, []))
        tr.store(Loc(H.nav(self.view, "db_latency"), []), VRef(self.hist, []))
        H.c(f"{H.lv(self.view, 'update_db_metrics')} = 0;")
        self.accs = H.nav(self.cache, "accounts.slots.e")
        self.stor = H.nav(self.cache, "storage.slots.e")

    def init(self, a):
        """account a was loaded by a worker (Loaded / LoadedEmpty / not existing / changed ...), its slot map may exist and
        may hold slot values consistent with the backing store (a cache of it), other addresses are not cached"""
        H = self.H
        for x in range(A):
            H.c(f"{H.lv(self.accs, 'locked', [x])} = 0; {H.lv(self.stor, 'locked', [x])} = 0; {H.lv(self.accs, 'data.present', [x])} = ({x} == {a}); {H.lv(self.stor, 'data.present', [x])} = 0;")
            for s in range(SL):
                H.c(f"{H.lv(self.stor, 'data.val.slots.e.locked', [x, s])} = 0; {H.lv(self.stor, 'data.val.slots.e.data.present', [x, s])} = 0;")
        st = H.lv(self.accs, "data.val.status", [a])
        H.c(f"{st} = nondet_uchar(); __CPROVER_assume({st} < 8); {H.lv(self.accs, 'data.val.account.d', [a])} = nondet_bool();")
        # representation invariant of the account cache: the account is absent exactly in the not-existing / destroyed statuses
        H.assume(f"({H.lv(self.accs, 'data.val.account.d', [a])} == 0) == ({st} == {ST['LoadedNotExisting']} || {st} == {ST['Destroyed']} || {st} == {ST['DestroyedAgain']})")
        H.c(f"{H.lv(self.stor, 'data.present', [a])} = nondet_bool();")
        for s in range(SL):
            pr = H.lv(self.stor, "data.val.slots.e.data.present", [a, s])
            H.c(f"{pr} = nondet_bool(); {H.lv(self.stor, 'data.val.slots.e.data.val', [a, s])} = nondet_uchar();")
            H.assume(f"!{pr} || {H.lv(self.stor, 'data.present', [a])}")
            # representation invariant: a cached slot of an account whose storage is NOT known equals the backing value
            H.assume(f"!{pr} || {KNOWN.format(s=st)} || {H.lv(self.accs, 'data.val.account.d', [a])} == 0 || {H.lv(self.stor, 'data.val.slots.e.data.val', [a, s])} == db_slot[{a}][{s}]")
        for x in range(2):
            H.c(f"{H.lv(self.cache, 'contracts.slots.e.locked', [x])} = 0; {H.lv(self.cache, 'contracts.slots.e.data.present', [x])} = 0;")

    def served_before(self, a, s):
        H = self.H
        st = H.lv(self.accs, "data.val.status", [a])
        known = f"({KNOWN.format(s=st)} || {H.lv(self.accs, 'data.val.account.d', [a])} == 0)"
        pr = H.lv(self.stor, "data.val.slots.e.data.present", [a, s])
        return f"(({H.lv(self.stor, 'data.present', [a])} && {pr}) ? {H.lv(self.stor, 'data.val.slots.e.data.val', [a, s])} : ({known} ? 0 : db_slot[{a}][{s}]))"


def havoc_account(H, acc):
    """the committed transaction's journal account for address 0"""
    H.c(f"{H.lv(acc, 'status')} = nondet_uchar();")
    for f in ("balance", "nonce", "code_hash"):
        H.c(f"{H.lv(acc, 'info.' + f)} = nondet_uchar();")
    H.assume(f"{H.lv(acc, 'info.code_hash')} < 2")        # two abstract code hashes: 0 and the empty-code hash
    H.c(f"{H.lv(acc, 'info.code.d')} = 1; {H.lv(acc, 'info.code.Some.0.id')} = 5;")
    for s in range(SL):
        H.c(f"{H.lv(acc, 'storage.present.e', [s])} = nondet_bool(); {H.lv(acc, 'storage.keys.e', [s])} = {s};")
        H.c(f"{H.lv(acc, 'storage.vals.e.original_value', [s])} = nondet_uchar(); {H.lv(acc, 'storage.vals.e.present_value', [s])} = nondet_uchar();")


def oracle(H, acc, before, s):
    st = H.lv(acc, "status")
    ch = H.lv(acc, "info.code_hash")
    empty = f"(({ch} == 1 || {ch} == 0) && {H.lv(acc, 'info.balance')} == 0 && {H.lv(acc, 'info.nonce')} == 0)"
    touched, sd, cr = f"(({st} & 4) != 0)", f"(({st} & 2) != 0)", f"(({st} & 1) != 0)"
    changed = f"({H.lv(acc, 'storage.present.e', [s])} && {H.lv(acc, 'storage.vals.e.original_value', [s])} != {H.lv(acc, 'storage.vals.e.present_value', [s])})"
    pv = H.lv(acc, "storage.vals.e.present_value", [s])
    cleared = f"({touched} && ({sd} || {cr} || {empty}))"
    return f"(!{touched} ? {before} : ({sd} ? 0 : ({cr} ? ({changed} ? {pv} : 0) : ({empty} ? 0 : ({changed} ? {pv} : {before})))))"


def build(mode):
    def b(tr):
        H = hz.Harness(tr, "c10_" + mode)
        conc = mode != "seq"
        H.cvar("db_slot", WIDE, dims=[A, SL], shared=conc); H.cvar("db_reads", "unsigned char", shared=conc)
        H.c("db_reads = 0;")
        for a in range(A):
            for s in range(SL):
                H.c(f"db_slot[{a}][{s}] = nondet_uchar();")
        k = K(H, tr, shared=conc)
        k.init(0)
        acc = (H.shared if conc else H.local)("jacc", "Account")
        havoc_account(H, acc)
        # journal discipline (revm): the slots a transaction reports for an account it did not (re-)create carry, as original
        # value, what the state served before the transaction
        H.cvar("before0", WIDE, shared=conc)
        H.c(f"before0 = {k.served_before(0, 0)};")
        H.assume(f"!{H.lv(acc, 'storage.present.e', [0])} || ({H.lv(acc, 'status')} & 1) != 0 || {H.lv(acc, 'storage.vals.e.original_value', [0])} == before0")
        H.cvar("expect", WIDE, shared=conc)
        H.c(f"expect = {oracle(H, acc, 'before0', 0)};")
        r1 = (H.shared if conc else H.local)("r1", "Result<U256, DBError>")
        tn = (H.shared if conc else H.local)("tn", "Option<TransitionAccount>")

        def reader():
            H.call("ParallelStateView::db_storage", [VLoc(Loc(k.view, [])), H.val("0", "unsigned char"), H.val("0", WIDE)], r1)

        def commit():
            H.call("ParallelCacheState::apply_account_state", [H.ref(k.cache), H.val("0", "unsigned char"), VLoc(Loc(acc, []))], tn)
        if mode == "seq":
            H.cvar("order", "_Bool", shared=False)
            H.c("order = nondet_bool(); if (order) {")
            reader()
            H.c("}")
            commit()
        else:
            first, second = (reader, commit) if mode == "reader_commit" else (commit, reader)
            t1 = H.thread("A"); H.enter(t1)
            # each thread needs its own view value (it is Copy): rebuild locals inside the thread
            if first is reader:
                reader()
            else:
                commit()
            t2 = H.thread("B"); H.enter(t2)
            if second is reader:
                reader()
            else:
                commit()
            H.post()
        r2 = H.local("r2", "Result<U256, DBError>")
        H.call("ParallelStateView::db_storage", [VLoc(Loc(k.view, [])), H.val("0", "unsigned char"), H.val("0", WIDE)], r2)
        H.assert_(f"{H.lv(r2, 'd')} == {H.variant(r2, '', 'Ok')} && {H.lv(r2, 'Ok.0')} == expect",
                  "after the commit the state serves for (a, s) exactly what revm's State serves: 0 after destroy / create / empty-touch unless the "
                  "committed transaction wrote the slot, the committed value if it changed the slot, the earlier value otherwise -- whatever a "
                  "concurrent cache-filling read did")
        H.cover(f"expect == 0 && before0 != 0", "a non-zero slot cleared by the commit")
        H.cover(f"expect != before0 && expect != 0", "a slot changed by the commit")
        H.cover("db_reads >= 1", "the reader went to the backing store")
        return H
    return b


# ------------------------------------------------------------------------------------------------ h3: differential vs revm CacheAccount
OPS = ["selfdestruct", "touch_empty_eip161", "newly_created", "change", "increment_balance"]


def diff_cfg():
    ov = revm_types.base_overrides()
    ov.update(revm_models.type_overrides(WIDE))
    # here AccountStatus is revm-database's enum (variant order copied from its source), not revm-state's flag byte
    names = sorted(ST, key=lambda k_: ST[k_])
    ov["AccountStatus"] = lambda tr, ty, name, dims, storage, g=None: tr.make_enum(ty, name, dims, storage, [(v, []) for v in names], g)
    return {"type_overrides": ov, "stubs": {"<Level as PartialOrd>::le": sc.m_level_le}, "cap": 2, "noops": [r"^metrics::"], "dead_calls": sc.TRACING_DEAD,
            "opaque_types": [r"tracing"], "key_caps": {"Address": A, "Uint": SL, "U256": SL, "StorageKey": SL}, "key_cap": SL,
            "consts": revm_models.consts(), "extra_src": revm_models.extra_src_roots(), "extra_mir_pkgs": ["revm-database"], "set_iter_cap": 2,
            "aliases": {"EvmState": "HashMap<Address, Account>", "EvmStorage": "HashMap<StorageKey, EvmStorageSlot>",
                        "PlainStorage": "HashMap<StorageKey, StorageValue>", "StorageWithOriginalValues": "HashMap<StorageKey, StorageSlot>"}}


def build_diff(op):
    def b(tr):
        H = hz.Harness(tr, "c10_diff_" + op)
        g = H.local("g", "CacheAccountInfo")
        r = H.local("r", "CacheAccount")
        # same starting account on both sides (revm's additionally carries its storage map)
        st = H.lv(g, "status.d")
        H.c(f"{st} = nondet_uchar(); __CPROVER_assume({st} < 8); {H.lv(r, 'status.d')} = {st};")
        H.c(f"{H.lv(g, 'account.d')} = nondet_bool(); {H.lv(r, 'account.d')} = {H.lv(g, 'account.d')};")
        for f in ("balance", "nonce", "code_hash"):
            H.c(f"{H.lv(g, 'account.Some.0.' + f)} = nondet_uchar(); {H.lv(r, 'account.Some.0.info.' + f)} = {H.lv(g, 'account.Some.0.' + f)};")
        H.c(f"{H.lv(g, 'account.Some.0.code.d')} = 0; {H.lv(r, 'account.Some.0.info.code.d')} = 0;")
        for s_ in range(SL):
            H.c(f"{H.lv(r, 'account.Some.0.storage.present.e', [s_])} = nondet_bool(); {H.lv(r, 'account.Some.0.storage.keys.e', [s_])} = {s_}; {H.lv(r, 'account.Some.0.storage.vals.e', [s_])} = nondet_uchar();")
        # representation invariant shared by both caches: account absent exactly in the not-existing / destroyed statuses
        H.assume(f"({H.lv(g, 'account.d')} == 0) == ({st} == {ST['LoadedNotExisting']} || {st} == {ST['Destroyed']} || {st} == {ST['DestroyedAgain']})")
        ninfo = H.local("ninfo", "AccountInfo")
        for f in ("balance", "nonce", "code_hash"):
            H.c(f"{H.lv(ninfo, f)} = nondet_uchar();")
        H.c(f"{H.lv(ninfo, 'code.d')} = 0;")
        nst = H.local("nstorage", "StorageWithOriginalValues")
        for s_ in range(SL):
            H.c(f"{H.lv(nst, 'present.e', [s_])} = nondet_bool(); {H.lv(nst, 'keys.e', [s_])} = {s_}; {H.lv(nst, 'vals.e.previous_or_original_value', [s_])} = nondet_uchar(); {H.lv(nst, 'vals.e.present_value', [s_])} = nondet_uchar();")
        nst2 = H.local("nstorage2", "StorageWithOriginalValues")
        tr.copy(Loc(nst2, []), Loc(nst, []))
        ninfo2 = H.local("ninfo2", "AccountInfo")
        tr.copy(Loc(ninfo2, []), Loc(ninfo, []))
        H.cvar("amount", "unsigned __int128", shared=False)
        H.c("amount = (unsigned __int128)nondet_uchar();")
        if op in ("selfdestruct", "touch_empty_eip161", "increment_balance"):
            tg = H.local("tg", "Option<TransitionAccount>"); trr = H.local("trr", "Option<TransitionAccount>")
            extra = [H.val("amount", "unsigned __int128")] if op == "increment_balance" else []
            H.call(f"CacheAccountInfo::{op}", [H.ref(g)] + extra, tg)
            H.call(f"CacheAccount::{op}", [H.ref(r)] + extra, trr)
            H.assert_(f"{H.lv(tg, 'd')} == {H.lv(trr, 'd')}", "a transition is produced in exactly the same cases as by revm")
            gt, rt, guard = H.nav(tg, "Some.0"), H.nav(trr, "Some.0"), f"{H.lv(tg, 'd')} == 1"
            bs = None
        else:
            pair = H.local("pair", "(TransitionAccount, PlainStorage)"); trr = H.local("trr", "TransitionAccount")
            H.call(f"CacheAccountInfo::{op}", [H.ref(g), VLoc(Loc(ninfo, [])), VLoc(Loc(nst, []))], pair)
            H.call(f"CacheAccount::{op}", [H.ref(r), VLoc(Loc(ninfo2, [])), VLoc(Loc(nst2, []))], trr)
            gt, rt, guard = H.nav(pair, "0"), trr, "1"
            bs = H.nav(pair, "1")
        H.assert_(f"{H.lv(g, 'status.d')} == {H.lv(r, 'status.d')}", "resulting account status equals revm's")
        H.assert_(f"{H.lv(g, 'account.d')} == {H.lv(r, 'account.d')}", "resulting account presence equals revm's")
        for f in ("balance", "nonce", "code_hash"):
            H.assert_(f"{H.lv(g, 'account.d')} == 0 || {H.lv(g, 'account.Some.0.' + f)} == {H.lv(r, 'account.Some.0.info.' + f)}", f"resulting account {f} equals revm's")

        def opt_info_eq(a_, b_, what):
            H.assert_(f"!({guard}) || {H.lv(a_, 'd')} == {H.lv(b_, 'd')}", f"transition.{what}: presence equals revm's")
            for f in ("balance", "nonce", "code_hash"):
                H.assert_(f"!({guard}) || {H.lv(a_, 'd')} == 0 || {H.lv(a_, 'Some.0.' + f)} == {H.lv(b_, 'Some.0.' + f)}", f"transition.{what}.{f} equals revm's")
        opt_info_eq(H.nav(gt, "info"), H.nav(rt, "info"), "info")
        opt_info_eq(H.nav(gt, "previous_info"), H.nav(rt, "previous_info"), "previous_info")
        H.assert_(f"!({guard}) || ({H.lv(gt, 'status.d')} == {H.lv(rt, 'status.d')} && {H.lv(gt, 'previous_status.d')} == {H.lv(rt, 'previous_status.d')} && "
                  f"{H.lv(gt, 'storage_was_destroyed')} == {H.lv(rt, 'storage_was_destroyed')})", "transition status / previous status / storage_was_destroyed equal revm's")
        for s_ in range(SL):
            H.assert_(f"!({guard}) || ({H.lv(gt, 'storage.present.e', [s_])} == {H.lv(rt, 'storage.present.e', [s_])} && (!{H.lv(gt, 'storage.present.e', [s_])} || "
                      f"({H.lv(gt, 'storage.vals.e.present_value', [s_])} == {H.lv(rt, 'storage.vals.e.present_value', [s_])} && "
                      f"{H.lv(gt, 'storage.vals.e.previous_or_original_value', [s_])} == {H.lv(rt, 'storage.vals.e.previous_or_original_value', [s_])})))", f"transition storage slot {s_} equals revm's")
            if bs is not None:
                H.assert_(f"{H.lv(bs, 'present.e', [s_])} == {H.lv(nst2, 'present.e', [s_])} && (!{H.lv(bs, 'present.e', [s_])} || {H.lv(bs, 'vals.e', [s_])} == {H.lv(nst2, 'vals.e.present_value', [s_])})",
                          f"the slot values handed back for the storage cache are the present values of the changed slots (slot {s_})")
                H.assert_(f"!{H.lv(nst2, 'present.e', [s_])} || ({H.lv(r, 'account.Some.0.storage.present.e', [s_])} && {H.lv(r, 'account.Some.0.storage.vals.e', [s_])} == {H.lv(bs, 'vals.e', [s_])})",
                          f"... and they are what revm stores in its own account for those slots (slot {s_})")
        H.cover(f"{guard} && {H.lv(gt, 'previous_info.d')} == 1", "transition from an existing account")
        H.cover(f"{H.lv(g, 'status.d')} >= 5", "a destroyed-family status results")
        return H
    return b


# ------------------------------------------------------------------------------------------------ h4: account reads (db_basic) vs the commit
def basic_stubs():
    st = stubs()

    def basic_ref(tr, c):
        a = tr.as_scalar(c.args[1]).expr
        d = c.dest()
        n = d.node
        ok = n.variants[n.vindex("Ok")][1].fields[0]        # Option<AccountInfo>
        tr.emit(f"__CPROVER_assume({a} < {A}); db_reads++; {tr.lv(Loc(n.discr, d.idxs))} = {n.vindex('Ok')};")
        info = ok.variants[ok.vindex("Some")][1].fields[0]
        tr.emit(f"{tr.lv(Loc(ok.discr, d.idxs))} = db_exists[{a}] ? {ok.vindex('Some')} : {ok.vindex('None')};")
        tr.emit(f"{tr.lv(Loc(info.f('balance'), d.idxs))} = db_balance[{a}]; {tr.lv(Loc(info.f('nonce'), d.idxs))} = db_nonce[{a}]; "
                f"{tr.lv(Loc(info.f('code_hash'), d.idxs))} = db_code_hash[{a}];")
        code = info.f("code")
        tr.emit(f"{tr.lv(Loc(code.discr, d.idxs))} = {code.vindex('None')};")
    st["<DB as DatabaseRef>::basic_ref"] = basic_ref
    return st


def basic_cfg(inject=False):
    c = cfg(inject)
    c["stubs"] = basic_stubs()
    c["enum_consts"] = dict(ST)          # revm-database's AccountStatus is modelled as its discriminant byte (declaration order, see ST)
    return c


def build_basic(mode):
    """db_basic(a) by a speculative worker vs { first load of a by the executing worker ; ordered commit of a transaction on a }"""
    def b(tr):
        H = hz.Harness(tr, "c10_basic_" + mode)
        conc = mode != "seq"
        H.cvar("db_slot", WIDE, dims=[A, SL], shared=conc); H.cvar("db_reads", "unsigned char", shared=conc)
        for nm, ct in (("db_exists", "_Bool"), ("db_balance", WIDE), ("db_nonce", WIDE), ("db_code_hash", WIDE)):
            H.cvar(nm, ct, dims=[A], shared=conc)
        H.c("db_reads = 0;")
        for a in range(A):
            H.c(f"db_exists[{a}] = nondet_bool(); db_balance[{a}] = nondet_uchar(); db_nonce[{a}] = nondet_uchar(); db_code_hash[{a}] = nondet_uchar(); __CPROVER_assume(db_code_hash[{a}] < 2);")
            for s in range(SL):
                H.c(f"db_slot[{a}][{s}] = nondet_uchar();")
        k = K(H, tr, shared=conc)
        k.init(0)
        # the account may also be absent from the cache (nobody read it yet)
        pres = H.lv(k.accs, "data.present", [0])
        H.c(f"{pres} = nondet_bool();")
        for f in ("balance", "nonce", "code_hash"):
            H.c(f"{H.lv(k.accs, 'data.val.account.Some.0.' + f, [0])} = nondet_uchar();")
        H.assume(f"{H.lv(k.accs, 'data.val.account.Some.0.code_hash', [0])} < 2")
        H.c(f"{H.lv(k.accs, 'data.val.account.Some.0.code.d', [0])} = 0;")
        acc = (H.shared if conc else H.local)("jacc", "Account")
        havoc_account(H, acc)
        # what the state serves for address 0 before anything happens: the cached account, else the backing account (empty accounts
        # normalised to the default account, as revm's State::load_cache_account does)
        for nm, ct in (("b_some", "_Bool"), ("b_bal", WIDE), ("b_nonce", WIDE), ("b_ch", WIDE), ("e_some", "_Bool"), ("e_bal", WIDE), ("e_nonce", WIDE), ("e_ch", WIDE)):
            H.cvar(nm, ct, shared=conc)
        cs = lambda f: H.lv(k.accs, "data.val.account.Some.0." + f, [0])
        db_empty = "((db_code_hash[0] == 1 || db_code_hash[0] == 0) && db_balance[0] == 0 && db_nonce[0] == 0)"
        H.c(f"if ({pres}) {{ b_some = {H.lv(k.accs, 'data.val.account.d', [0])} != 0; b_bal = {cs('balance')}; b_nonce = {cs('nonce')}; b_ch = {cs('code_hash')}; }} "
            f"else {{ b_some = db_exists[0]; b_bal = {db_empty} ? 0 : db_balance[0]; b_nonce = {db_empty} ? 0 : db_nonce[0]; b_ch = {db_empty} ? 1 : db_code_hash[0]; }}")
        st = H.lv(acc, "status")
        ch = H.lv(acc, "info.code_hash")
        empty = f"(({ch} == 1 || {ch} == 0) && {H.lv(acc, 'info.balance')} == 0 && {H.lv(acc, 'info.nonce')} == 0)"
        touched, sd, cr = f"(({st} & 4) != 0)", f"(({st} & 2) != 0)", f"(({st} & 1) != 0)"
        H.c(f"if (!{touched}) {{ e_some = b_some; e_bal = b_bal; e_nonce = b_nonce; e_ch = b_ch; }} else if ({sd} || (!{cr} && {empty})) {{ e_some = 0; e_bal = 0; e_nonce = 0; e_ch = 0; }} "
            f"else {{ e_some = 1; e_bal = {H.lv(acc, 'info.balance')}; e_nonce = {H.lv(acc, 'info.nonce')}; e_ch = {ch}; }}")
        mk = H.shared if conc else H.local
        r1 = mk("r1", "Result<Option<AccountInfo>, DBError>")
        rl = mk("rl", "Result<Option<AccountInfo>, DBError>")
        tn = mk("tn", "Option<TransitionAccount>")

        def reader():
            H.call("ParallelStateView::db_basic", [VLoc(Loc(k.view, [])), H.val("0", "unsigned char")], r1)

        def commit():
            # the transaction being committed was executed by a worker that loaded the account first (get_account_mut relies on it)
            H.call("ParallelStateView::db_basic", [VLoc(Loc(k.view, [])), H.val("0", "unsigned char")], rl)
            H.call("ParallelCacheState::apply_account_state", [H.ref(k.cache), H.val("0", "unsigned char"), VLoc(Loc(acc, []))], tn)
        if mode == "seq":
            H.cvar("order", "_Bool", shared=False)
            H.c("order = nondet_bool(); if (order) {")
            reader()
            H.c("}")
            commit()
        else:
            first, second = (reader, commit) if mode == "reader_commit" else (commit, reader)
            t1 = H.thread("A"); H.enter(t1)
            first()
            t2 = H.thread("B"); H.enter(t2)
            second()
            H.post()
        r2 = H.local("r2", "Result<Option<AccountInfo>, DBError>")
        H.call("ParallelStateView::db_basic", [VLoc(Loc(k.view, [])), H.val("0", "unsigned char")], r2)
        some = f"({H.lv(r2, 'Ok.0.d')} != 0)"
        H.assert_(f"{H.lv(r2, 'd')} == {H.variant(r2, '', 'Ok')} && {some} == e_some", "after the commit the account is present / absent exactly as revm's State serves it (gone after selfdestruct / empty-touch, else the committed account; untouched: as before)")
        for f, e in (("balance", "e_bal"), ("nonce", "e_nonce"), ("code_hash", "e_ch")):
            H.assert_(f"!{some} || !e_some || {H.lv(r2, 'Ok.0.Some.0.' + f)} == {e}", f"after the commit the state serves the committed {f} of the account -- whatever a concurrent cache-filling account read did")
        H.cover(f"e_some && b_some && e_bal != b_bal && {touched}", "an existing account changed by the commit")
        H.cover("db_reads >= 2" if conc else "db_reads >= 1", "cache misses went to the backing store")
        H.cover("!e_some && b_some", "account removed by the commit")
        return H
    return b


def specs(tier):
    out = [
        Spec("h1_read_then_commit_seq", build("seq"), cfg=cfg(), unwind=5, timeout=2700,
             desc="sequential: optional cache-filling read, commit of any journal account (all status bytes), read again",
             bounds={"addresses": A, "slots": SL, "value_bits": 8}),
        Spec("h2_reader_vs_commit", build("reader_commit"), cfg=cfg(inject=True), unwind=5, timeout=3600,
             desc="db_storage(a, s) by a worker with the ordered commit of a transaction on a running atomically at any conflicting visible operation of the read",
             bounds={"addresses": A, "slots": SL, "threads": 2, "context_switches": 2}),
        Spec("h2_commit_vs_reader", build("commit_reader"), cfg=cfg(inject=True), unwind=5, timeout=3600,
             desc="the commit with the worker's read running atomically at any conflicting visible operation of the commit",
             bounds={"addresses": A, "slots": SL, "threads": 2, "context_switches": 2}),
    ]
    out += [
        Spec("h4_basic_then_commit_seq", build_basic("seq"), cfg=basic_cfg(), unwind=5, timeout=2700,
             desc="sequential: optional cache-filling db_basic, then first load + commit of any journal account, then db_basic again (account cached or not, any backing account)",
             bounds={"addresses": A, "value_bits": 8}),
        Spec("h4_basic_reader_vs_commit", build_basic("reader_commit"), cfg=basic_cfg(inject=True), unwind=5, timeout=3600,
             desc="db_basic(a) by a speculative worker with {first load of a; ordered commit of a transaction on a} running atomically at any conflicting visible operation of the read",
             bounds={"addresses": A, "threads": 2, "context_switches": 2}),
        Spec("h4_basic_commit_vs_reader", build_basic("commit_reader"), cfg=basic_cfg(inject=True), unwind=5, timeout=3600,
             desc="{first load; commit} with the worker's db_basic running atomically at any conflicting visible operation",
             bounds={"addresses": A, "threads": 2, "context_switches": 2}),
    ]
    for op in OPS:
        out.append(Spec(f"h3_diff_{op}", build_diff(op), cfg=diff_cfg(), unwind=5, timeout=2700,
                        desc=f"differential: grevm CacheAccountInfo::{op} (MIR) vs revm-database CacheAccount::{op} (MIR of the dependency) from any (status, account) pair",
                        bounds={"slots": SL, "value_bits": 8}))
    return out
