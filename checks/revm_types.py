"""Abstract layouts for revm / environment types used by the scheduler-level harnesses (each is an explicit
abstraction listed in evidence): only the parts grevm's own code inspects are kept."""
import models
from translate import StructN, ScalarN, UnitN, EnumN, ArrN, TranslateError, Loc
from rtypes import parse_type, Ty

STRINGS = []


def intern(text: str) -> int:
    if text not in STRINGS:
        STRINGS.append(text)
    return STRINGS.index(text) + 1


def unit(tr, ty, name, dims, storage, g=None):
    return UnitN(ty, name, dims, storage)


def scalar(ctype):
    def f(tr, ty, name, dims, storage, g=None):
        return ScalarN(ty, name, dims, storage, ctype)
    return f


def t_string(tr, ty, name, dims, storage, g=None):
    """String / &str: an interned tag (which literal) -- contents are never inspected by grevm"""
    s = StructN(ty, name, dims, storage, "String")
    s.fields.append(ScalarN(None, name + "_tag", dims, storage, "unsigned short"))
    s.names.append("tag")
    return s


def t_evmerror(tr, ty, name, dims, storage, g=None):
    dbe = ty.args[0] if ty.args else parse_type("u8")
    return tr.make_enum(ty, name, dims, storage,
                        [("Transaction", [parse_type("InvalidTransaction")]), ("Header", []), ("Database", [dbe]),
                         ("Custom", [parse_type("String")]), ("CustomAny", [])], g)


def t_invalid_tx(tr, ty, name, dims, storage, g=None):
    """InvalidTransaction: opaque code (grevm forwards it unchanged); code 200 = NonceOverflowInTransaction"""
    s = StructN(ty, name, dims, storage, "InvalidTransaction")
    s.fields.append(ScalarN(None, name + "_code", dims, storage, "unsigned char"))
    s.names.append("code")

    def agg(tr_, inst, dst, rv):
        # a variant written as a literal in grevm's own code: code 200 = NonceOverflowInTransaction, other unit variants get a stable code < 200
        raw = rv.raw.strip().rstrip(";")
        vname = raw.split("::")[-1].split("(")[0].split("{")[0].strip()
        if rv.ops:
            raise TranslateError(f"InvalidTransaction literal with payload is not modelled: {raw}")
        code = 200 if vname == "NonceOverflowInTransaction" else 100 + (sum(ord(ch) for ch in vname) % 90)
        tr_.emit(f"{tr_.lv(Loc(dst.node.fields[0], dst.idxs))} = {code};")
    s.extra["agg"] = agg
    return s


def base_overrides():
    ov = {k: unit for k in ("CfgEnv", "BlockEnv", "TxEnv", "GrevmConfig", "ReservePlanner", "DynParallelPrecompile",
                            "ExecuteMetricsCollector", "DB", "Instant", "Duration")}
    ov["String"] = t_string
    ov["EVMError"] = t_evmerror
    ov["InvalidTransaction"] = t_invalid_tx
    ov["<DB as DatabaseRef>::Error"] = scalar("unsigned char")
    ov["DBError"] = scalar("unsigned char")
    return ov


def sched_light_overrides():
    """Scheduler with everything but the scheduling state abstracted away"""
    ov = base_overrides()
    for k in ("ParallelState", "TxExecutionOutcome", "Address", "MVMemory", "DashMap", "TransactionResult", "AbortReason"):
        ov[k] = unit
    return ov


def install_string_models():
    from models import model, REG, VConst, VScalar, VLoc, Loc

    def m_to_owned(tr, c):
        d = c.dest()
        tag = "0"
        a = c.args[0]
        if isinstance(a, VConst):
            tag = str(intern(a.text))
        else:
            # the &str local was assigned from a constant in the same function: look it up
            op = c.term.args[0]
            if op.place is not None and not op.place.proj:
                for blk in c.inst.fn.blocks.values():
                    for st in blk.stmts:
                        if st.kind == "assign" and st.place.local == op.place.local and not st.place.proj and \
                                st.rvalue.kind == "use" and st.rvalue.ops[0].kind == "const" and st.rvalue.ops[0].const.startswith('"'):
                            tag = str(intern(st.rvalue.ops[0].const))
        if d is not None and d.node.kind == "struct" and d.node.tag == "String":
            tr.emit(f"{tr.lv(Loc(d.node.fields[0], d.idxs))} = {tag};")
    REG.add("<str as ToOwned>::to_owned", m_to_owned, "String from a literal: interned tag")
    REG.add("<String as From>::from", m_to_owned, "String from a literal: interned tag")
    REG.add("str::to_string", m_to_owned, "String from a literal: interned tag")
    REG.add("<str as ToString>::to_string", m_to_owned, "String from a literal: interned tag")


install_string_models()
