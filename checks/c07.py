"""C07  Fee-recipient accounting is exact, deferred or immediate  (grevm's own rules; revm's journal touch semantics are outside).

Real code (MIR -> C): beneficiary/reward.rs {BeneficiaryMode::apply, BeneficiaryReward::{from_gas, is_zero, defer},
DeferredBeneficiaryReward::apply_to}, ordered_commit.rs {OrderedCommitter::commit} (reward fold, = C03/h1).
revm's context / journal / post-execution hook are uninterpreted: accessors return solver-chosen values, the hook is a
counting ghost.

  h1_apply_rule : BeneficiaryMode::apply over every mode, fee setting, fork, gas price / base fee / gas used / reservoir
                  and journal membership of the fee recipient:
                    Immediate -> revm's hook runs exactly once, nothing deferred, its error is returned;
                    Deferred  -> fees disabled: nothing; reward == 0 or recipient already in the journal: revm's hook runs
                                 exactly once (so a zero reward still touches the account exactly as revm does), nothing
                                 deferred; otherwise the hook does NOT run and exactly the reward is deferred;
                  reward = (>= London ? price.saturating_sub(basefee) : price) * used.saturating_sub(reservoir).
  h2_commit_fold: (= C03/h1) ordered commit applies the deferred reward once to the COMMITTED account with checked add,
                  materialises an absent account, preserves the other fields, marks it touched.
"""
import glob
import os
import re
from run import Spec
import harness as hz
from translate import Loc, VAgg, VRef, VScalar, VLoc, VUnit, VConst, TranslateError
import revm_types
import revm_models
import sched_common as sc

WIDE = "unsigned __int128"


def spec_order():
    r = revm_models.registry_root()
    p = glob.glob(os.path.join(r, "revm-primitives-24*/src/hardfork.rs"))[0]
    txt = open(p).read()
    body = txt[txt.index("pub enum SpecId"):]
    body = body[:body.index("\n}")]
    return re.findall(r"^\s*([A-Z_0-9]+)(?: = \d+)?,", body, re.M)


def stubs():
    order = spec_order()
    unitv = lambda tr, c: c.ret(VUnit())

    def hook(tr, c):
        d = c.dest()
        n = d.node
        tr.emit("hook_calls++;")
        tr.emit(f"{tr.lv(Loc(n.discr, d.idxs))} = hook_fails ? {n.vindex('Err')} : {n.vindex('Ok')};")
        e = n.variants[n.vindex('Err')][1].fields
        if e and e[0].kind == "scalar":
            tr.emit(f"{tr.lv(Loc(e[0], d.idxs))} = 33;")

    def sc_ret(expr, ct):
        return lambda tr, c: c.ret(VScalar(expr, ct))

    def evm_state(tr, c):
        c.ret(VRef(tr._c07_journal, []))

    def enabled_in(tr, c):
        """revm-primitives: SpecId::is_enabled_in(self, other) = self as u8 >= other as u8"""
        def disc(v):
            loc = v.loc if isinstance(v, VLoc) else tr.deref(v)
            return tr.lv(Loc(loc.node.discr, loc.idxs))
        c.ret(VScalar(f"({disc(c.args[0])} >= {disc(c.args[1])})", "_Bool"))

    def into_spec(tr, c):
        d = c.dest()
        tr.emit(f"{tr.lv(Loc(d.node.discr, d.idxs))} = spec_id;")

    def cell_set(tr, c):
        cell = tr.deref(c.args[0])
        tr.store(cell, c.args[1])
    st = {
        "<EVM as EvmTr>::ctx": unitv, "<&EVM as EvmTr>::ctx_ref": unitv, "<EVM as EvmTr>::ctx_ref": unitv,
        "<assoc as ContextTr>::block": unitv, "<CTX as ContextTr>::block": unitv, "<assoc as ContextTr>::journal": unitv,
        "<CTX as ContextTr>::cfg": unitv, "<CTX as ContextTr>::tx": unitv, "<assoc as ContextTr>::cfg": unitv, "<assoc as ContextTr>::tx": unitv,
        "<CTX as ContextTr>::journal": unitv, "<EVM as EvmTr>::ctx_mut": unitv, "<assoc as Clone>::clone": unitv, "<assoc as Cfg>::spec": unitv, "FrameResult::gas": unitv,
        "<assoc as JournalTr>::evm_state": evm_state,
        "revm::revm_handler::post_execution::reward_beneficiary": hook, "post_execution::reward_beneficiary": hook, "reward_beneficiary": hook,
        "<assoc as Block>::beneficiary": sc_ret("bene", "unsigned char"),
        "<assoc as Cfg>::is_fee_charge_disabled": sc_ret("fee_disabled", "_Bool"),
        "<assoc as Block>::basefee": sc_ret("basefee", "u64"),
        "<assoc as Transaction>::effective_gas_price": sc_ret("gas_price", "unsigned __int128"),
        "<assoc as Into>::into": into_spec,
        "SpecId::is_enabled_in": enabled_in,
        "Gas::used": sc_ret("gas_used", "u64"), "Gas::reservoir": sc_ret("gas_reservoir", "u64"),
        "Cell::set": cell_set,
        "<Level as PartialOrd>::le": sc.m_level_le,
    }
    return st


def cfg():
    ov = revm_types.base_overrides()
    ov.update(revm_models.type_overrides(WIDE))
    for k in ("EVM", "FrameResult", "Gas", "CTX"):
        ov[k] = revm_types.unit
    ov["ERROR"] = revm_types.scalar("unsigned char")
    order = spec_order()
    ov["SpecId"] = lambda tr, ty, name, dims, storage, g=None: tr.make_enum(ty, name, dims, storage, [(v, []) for v in order], g)
    c = {"type_overrides": ov, "stubs": stubs(), "cap": 2, "noops": [r"metrics"], "dead_calls": sc.TRACING_DEAD,
         "opaque_types": [r"tracing", r"^<.* as .*>::"], "key_caps": {"Address": 2}, "key_cap": 2,
         "consts": revm_models.consts(), "extra_src": revm_models.extra_src_roots(),
         "aliases": {"EvmState": "HashMap<Address, Account>", "EvmStorage": "HashMap<StorageKey, EvmStorageSlot>"}}
    return c


def build_h1():
    def b(tr):
        H = hz.Harness(tr, "c07_h1")
        for nm, ct in (("hook_calls", "unsigned char"), ("hook_fails", "_Bool"), ("bene", "unsigned char"), ("fee_disabled", "_Bool"),
                       ("basefee", "u64"), ("gas_price", "unsigned __int128"), ("spec_id", "unsigned char"), ("gas_used", "u64"), ("gas_reservoir", "u64")):
            H.cvar(nm, ct, shared=False)
        H.c("hook_calls = 0; hook_fails = nondet_bool(); bene = nondet_uchar(); __CPROVER_assume(bene < 2); fee_disabled = nondet_bool();")
        H.c("basefee = nondet_usize(); gas_used = nondet_usize(); gas_reservoir = nondet_usize(); spec_id = nondet_uchar(); __CPROVER_assume(spec_id < %d);" % len(spec_order()))
        H.c("gas_price = (unsigned __int128)nondet_usize();")
        # stated bound: 6-bit gas quantities / prices (wider operands make the 128-bit multiplier intractable for the SAT back end)
        H.c("__CPROVER_assume(basefee < 64 && gas_used < 64 && gas_reservoir < 64 && gas_price < 64);")
        j = H.local("journal_state", "EvmState")
        tr._c07_journal = j
        for a in range(2):
            H.c(f"{H.lv(j, 'present.e', [a])} = nondet_bool(); {H.lv(j, 'keys.e', [a])} = {a};")
        mode = H.local("mode", "BeneficiaryMode")
        H.c(f"{H.lv(mode, 'd')} = nondet_bool();")
        cell = H.local("deferred", "Cell<Option<DeferredBeneficiaryReward>>")
        dn = H.nav(cell, "0") if H.nav(cell, "").kind == "struct" else cell
        H.c(f"{H.lv(dn, 'd')} = 0;")
        res = H.local("res", "Result<(), ERROR>")
        evm = H.local("evm", "EVM"); frame = H.local("frame", "FrameResult")
        H.call("BeneficiaryMode::apply", [VLoc(Loc(mode, [])), H.ref(evm), H.ref(frame), H.ref(cell)], res)
        imm = f"({H.lv(mode, 'd')} == {H.variant(mode, '', 'Immediate')})"
        ok = f"({H.lv(res, 'd')} == {H.variant(res, '', 'Ok')})"
        deferred = f"({H.lv(dn, 'd')} == 1)"
        london = f"(spec_id >= {spec_order().index('LONDON')})"
        price = f"({london} ? (gas_price > basefee ? gas_price - basefee : (unsigned __int128)0) : gas_price)"
        used = "(gas_used > gas_reservoir ? gas_used - gas_reservoir : (u64)0)"
        reward = f"(({price}) * (unsigned __int128)({used}))"
        in_j = f"{H.lv(j, 'present.e', ['bene'])}"
        via_hook = f"({imm} || (!fee_disabled && ({reward} == 0 || {in_j})))"
        H.assert_(f"hook_calls == ({via_hook} ? 1 : 0)", "revm's reward hook runs exactly once for Immediate mode, for a zero reward and for a recipient already in the journal; never otherwise")
        H.assert_(f"{deferred} == (!{imm} && !fee_disabled && {reward} != 0 && !{in_j})", "a reward is deferred iff Deferred mode, fees on, reward non-zero and the recipient is not in the journal")
        H.assert_(f"!{deferred} || {H.lv(dn, 'Some.0.0')} == {reward}", "the deferred amount is exactly revm's reward: (>= London ? price - basefee : price) * (used - reservoir), saturating subtractions")
        H.assert_(f"{ok} == !({via_hook} && hook_fails)", "the result is Ok unless revm's hook ran and failed")
        H.assert_(f"!({imm} || fee_disabled) || !{deferred}", "nothing is deferred in Immediate mode or with fees disabled")
        H.cover(f"{deferred}", "a deferred reward")
        H.cover(f"!{imm} && !fee_disabled && {reward} == 0 && hook_calls == 1", "zero reward applied through revm's hook in Deferred mode")
        H.cover(f"!{imm} && {in_j} && hook_calls == 1 && {reward} != 0", "recipient in the journal: immediate")
        H.cover(f"!{ok}", "hook error propagated")
        return H
    return b


def specs(tier):
    import c03
    out = [Spec("h1_apply_rule", build_h1(), cfg=cfg(), unwind=3, timeout=900,
                desc="real BeneficiaryMode::apply + BeneficiaryReward::from_gas with revm's context/journal/hook uninterpreted",
                bounds={"gas_and_price_bits": 6, "forks": "all SpecId values"})]
    for s in c03.specs(tier):
        if s.name == "h1_commit_nonce":
            s.name = "h2_commit_fold"
            out.append(s)
    return out
