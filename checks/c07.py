"""C07  Fee-recipient accounting is exact, deferred or immediate  (grevm's own rules; revm's journal touch semantics are outside).

Real code (MIR -> C): beneficiary/reward.rs {BeneficiaryMode::apply, BeneficiaryReward::{from_gas, is_zero, defer},
DeferredBeneficiaryReward::apply_to}, ordered_commit.rs {OrderedCommitter::commit} (reward fold, = C03/h1).
revm's context / journal / post-execution hook are uninterpreted: accessors return solver-chosen values, the hook is a
counting ghost.

  h1_apply_rule : BeneficiaryMode::apply over every mode, fee setting, fork, gas price / base fee / gas used / reservoir
                  and journal membership of the fee recipient:
                    Immediate -> revm's hook runs exactly once, nothing deferred, its error is returned;
                    Deferred  -> fees disabled: nothing; reward == 0 or recipient already in the journal: revm's hook runs
                                 exactly once (so a zero reward still touches the account exactly as revm does), nothing
                                 deferred; otherwise the hook does NOT run and exactly the reward is deferred;
                  reward = (>= London ? price.saturating_sub(basefee) : price) * used.saturating_sub(reservoir).
  h2_commit_fold: (= C03/h1) ordered commit applies the deferred reward once to the COMMITTED account with checked add,
                  materialises an absent account, preserves the other fields, marks it touched.
  h3_history_resolve_validate : beneficiary/history.rs from ANY history of 3 transactions: a read resolves to the nearest snapshot
                  (or the block-start anchor) with every later reward applied oldest-first, each addition checked on its own; fails
                  with the first estimate met; records every contributing (writer, incarnation); validation compares the whole
                  origin chain; publications are accepted only for a strictly newer incarnation.
  h4_history_invalidate : invalidation acts only on the inspected incarnation.
  h6_failed_validation_invalidates_history : (= C02/validate_conflict_retracts) the scheduler side of invalidation: the real Scheduler::validate calls
                  Beneficiary::invalidate (at least once) for every validation that ends in Conflict -- also when the incarnation's write set is empty
                  (a fee-recipient-only transaction publishes a history snapshot but no multi-version-memory location).
  h5_beneficiary_read : IncarnationDb::basic(fee recipient) returns exactly the history's resolution, records a Beneficiary read
                  version carrying the whole origin chain, and on an estimate blocks the incarnation (flag + blocker, absent account, no
                  read-set entry, no read of the mutable committed cache).
"""
import glob
import os
import re
from run import Spec
import harness as hz
from translate import Loc, VAgg, VRef, VScalar, VLoc, VUnit, VConst, TranslateError
import revm_types
import revm_models
import sched_common as sc

WIDE = "unsigned __int128"


def spec_order():
    r = revm_models.registry_root()
    p = glob.glob(os.path.join(r, "revm-primitives-24*/src/hardfork.rs"))[0]
    txt = open(p).read()
    body = txt[txt.index("pub enum SpecId"):]
    body = body[:body.index("\n}")]
    return re.findall(r"^\s*([A-Z_0-9]+)(?: = \d+)?,", body, re.M)


def stubs():
    order = spec_order()
    unitv = lambda tr, c: c.ret(VUnit())

    def hook(tr, c):
        d = c.dest()
        n = d.node
        tr.emit("hook_calls++;")
        tr.emit(f"{tr.lv(Loc(n.discr, d.idxs))} = hook_fails ? {n.vindex('Err')} : {n.vindex('Ok')};")
        e = n.variants[n.vindex('Err')][1].fields
        if e and e[0].kind == "scalar":
            tr.emit(f"{tr.lv(Loc(e[0], d.idxs))} = 33;")

    def sc_ret(expr, ct):
        return lambda tr, c: c.ret(VScalar(expr, ct))

    def evm_state(tr, c):
        c.ret(VRef(tr._c07_journal, []))

    def enabled_in(tr, c):
        """revm-primitives: SpecId::is_enabled_in(self, other) = self as u8 >= other as u8"""
        def disc(v):
            loc = v.loc if isinstance(v, VLoc) else tr.deref(v)
            return tr.lv(Loc(loc.node.discr, loc.idxs))
        c.ret(VScalar(f"({disc(c.args[0])} >= {disc(c.args[1])})", "_Bool"))

    def into_spec(tr, c):
        d = c.dest()
        tr.emit(f"{tr.lv(Loc(d.node.discr, d.idxs))} = spec_id;")

    def cell_set(tr, c):
        cell = tr.deref(c.args[0])
        tr.store(cell, c.args[1])
    st = {
        "<EVM as EvmTr>::ctx": unitv, "<&EVM as EvmTr>::ctx_ref": unitv, "<EVM as EvmTr>::ctx_ref": unitv,
        "<assoc as ContextTr>::block": unitv, "<CTX as ContextTr>::block": unitv, "<assoc as ContextTr>::journal": unitv,
        "<CTX as ContextTr>::cfg": unitv, "<CTX as ContextTr>::tx": unitv, "<assoc as ContextTr>::cfg": unitv, "<assoc as ContextTr>::tx": unitv,
        "<CTX as ContextTr>::journal": unitv, "<EVM as EvmTr>::ctx_mut": unitv, "<assoc as Clone>::clone": unitv, "<assoc as Cfg>::spec": unitv, "FrameResult::gas": unitv,
        "<assoc as JournalTr>::evm_state": evm_state,
        "revm::revm_handler::post_execution::reward_beneficiary": hook, "post_execution::reward_beneficiary": hook, "reward_beneficiary": hook,
        "<assoc as Block>::beneficiary": sc_ret("bene", "unsigned char"),
        "<assoc as Cfg>::is_fee_charge_disabled": sc_ret("fee_disabled", "_Bool"),
        "<assoc as Block>::basefee": sc_ret("basefee", "u64"),
        "<assoc as Transaction>::effective_gas_price": sc_ret("gas_price", "unsigned __int128"),
        "<assoc as Into>::into": into_spec,
        "SpecId::is_enabled_in": enabled_in,
        "Gas::used": sc_ret("gas_used", "u64"), "Gas::reservoir": sc_ret("gas_reservoir", "u64"),
        "Cell::set": cell_set,
        "<Level as PartialOrd>::le": sc.m_level_le,
    }
    return st


def cfg():
    ov = revm_types.base_overrides()
    ov.update(revm_models.type_overrides(WIDE))
    for k in ("EVM", "FrameResult", "Gas", "CTX"):
        ov[k] = revm_types.unit
    ov["ERROR"] = revm_types.scalar("unsigned char")
    order = spec_order()
    ov["SpecId"] = lambda tr, ty, name, dims, storage, g=None: tr.make_enum(ty, name, dims, storage, [(v, []) for v in order], g)
    c = {"type_overrides": ov, "stubs": stubs(), "cap": 2, "noops": [r"metrics"], "dead_calls": sc.TRACING_DEAD,
         "opaque_types": [r"tracing", r"^<.* as .*>::"], "key_caps": {"Address": 2}, "key_cap": 2,
         "consts": revm_models.consts(), "extra_src": revm_models.extra_src_roots(),
         "aliases": {"EvmState": "HashMap<Address, Account>", "EvmStorage": "HashMap<StorageKey, EvmStorageSlot>"}}
    return c


def build_h1():
    def b(tr):
        H = hz.Harness(tr, "c07_h1")
        for nm, ct in (("hook_calls", "unsigned char"), ("hook_fails", "_Bool"), ("bene", "unsigned char"), ("fee_disabled", "_Bool"),
                       ("basefee", "u64"), ("gas_price", "unsigned __int128"), ("spec_id", "unsigned char"), ("gas_used", "u64"), ("gas_reservoir", "u64")):
            H.cvar(nm, ct, shared=False)
        H.c("hook_calls = 0; hook_fails = nondet_bool(); bene = nondet_uchar(); __CPROVER_assume(bene < 2); fee_disabled = nondet_bool();")
        H.c("basefee = nondet_usize(); gas_used = nondet_usize(); gas_reservoir = nondet_usize(); spec_id = nondet_uchar(); __CPROVER_assume(spec_id < %d);" % len(spec_order()))
        H.c("gas_price = (unsigned __int128)nondet_usize();")
        # stated bound: 6-bit gas quantities / prices (wider operands make the 128-bit multiplier intractable for the SAT back end)
        H.c("__CPROVER_assume(basefee < 64 && gas_used < 64 && gas_reservoir < 64 && gas_price < 64);")
        j = H.local("journal_state", "EvmState")
        tr._c07_journal = j
        for a in range(2):
            H.c(f"{H.lv(j, 'present.e', [a])} = nondet_bool(); {H.lv(j, 'keys.e', [a])} = {a};")
        mode = H.local("mode", "BeneficiaryMode")
        H.c(f"{H.lv(mode, 'd')} = nondet_bool();")
        cell = H.local("deferred", "Cell<Option<DeferredBeneficiaryReward>>")
        dn = H.nav(cell, "0") if H.nav(cell, "").kind == "struct" else cell
        H.c(f"{H.lv(dn, 'd')} = 0;")
        res = H.local("res", "Result<(), ERROR>")
        evm = H.local("evm", "EVM"); frame = H.local("frame", "FrameResult")
        H.call("BeneficiaryMode::apply", [VLoc(Loc(mode, [])), H.ref(evm), H.ref(frame), H.ref(cell)], res)
        imm = f"({H.lv(mode, 'd')} == {H.variant(mode, '', 'Immediate')})"
        ok = f"({H.lv(res, 'd')} == {H.variant(res, '', 'Ok')})"
        deferred = f"({H.lv(dn, 'd')} == 1)"
        london = f"(spec_id >= {spec_order().index('LONDON')})"
        price = f"({london} ? (gas_price > basefee ? gas_price - basefee : (unsigned __int128)0) : gas_price)"
        used = "(gas_used > gas_reservoir ? gas_used - gas_reservoir : (u64)0)"
        reward = f"(({price}) * (unsigned __int128)({used}))"
        in_j = f"{H.lv(j, 'present.e', ['bene'])}"
        via_hook = f"({imm} || (!fee_disabled && ({reward} == 0 || {in_j})))"
        H.assert_(f"hook_calls == ({via_hook} ? 1 : 0)", "revm's reward hook runs exactly once for Immediate mode, for a zero reward and for a recipient already in the journal; never otherwise")
        H.assert_(f"{deferred} == (!{imm} && !fee_disabled && {reward} != 0 && !{in_j})", "a reward is deferred iff Deferred mode, fees on, reward non-zero and the recipient is not in the journal")
        H.assert_(f"!{deferred} || {H.lv(dn, 'Some.0.0')} == {reward}", "the deferred amount is exactly revm's reward: (>= London ? price - basefee : price) * (used - reservoir), saturating subtractions")
        H.assert_(f"{ok} == !({via_hook} && hook_fails)", "the result is Ok unless revm's hook ran and failed")
        H.assert_(f"!({imm} || fee_disabled) || !{deferred}", "nothing is deferred in Immediate mode or with fees disabled")
        H.cover(f"{deferred}", "a deferred reward")
        H.cover(f"!{imm} && !fee_disabled && {reward} == 0 && hook_calls == 1", "zero reward applied through revm's hook in Deferred mode")
        H.cover(f"!{imm} && {in_j} && hook_calls == 1 && {reward} != 0", "recipient in the journal: immediate")
        H.cover(f"!{ok}", "hook error propagated")
        return H
    return b


# ------------------------------------------------------------------------------------------------ h3: beneficiary history
HN = 3
HW = "unsigned char"


def hist_cfg():
    ov = revm_types.base_overrides()
    ov.update(revm_models.type_overrides(HW))
    return {"type_overrides": ov, "stubs": {"<Level as PartialOrd>::le": sc.m_level_le}, "cap": HN, "noops": [r"^metrics::"], "dead_calls": sc.TRACING_DEAD,
            "opaque_types": [r"tracing"], "consts": revm_models.consts(), "extra_src": revm_models.extra_src_roots(),
            "loops": {"BeneficiaryHistory::scan_before": {"*": (HN + 1, "assert")}}}


class Hist:
    def __init__(self, H, hist):
        self.H, self.h = H, hist
        self.st = H.nav(hist, "entries.e.state.data")          # EntryState
        self.val = H.nav(self.st, "value")                     # EntryValue
        self.eff = H.nav(self.val, "Exact.0")                  # BeneficiaryEffect

    def inc(self, i): return self.H.lv(self.st, "incarnation", [i])
    def is_est(self, i): return f"({self.H.lv(self.val, 'd', [i])} == {self.H.variant(self.val, '', 'Estimate')})"
    def kind(self, i): return self.H.lv(self.eff, "d", [i])
    def k(self, n): return self.H.variant(self.eff, "", n)
    def reward(self, i): return self.H.lv(self.eff, "Reward.0.0", [i])
    def snap_some(self, i): return f"({self.H.lv(self.eff, 'Snapshot.0.d', [i])} == 1)"
    def snap_f(self, i, f): return self.H.lv(self.eff, "Snapshot.0.Some.0." + f, [i])

    def havoc(self):
        H = self.H
        H.freeze(self.h, "entries.len", f"((usize){HN})")
        H.c(f"{H.lv(self.h, 'block_anchor.d')} = nondet_bool(); {H.lv(self.h, 'block_anchor.Some.0.balance')} = nondet_uchar(); {H.lv(self.h, 'block_anchor.Some.0.nonce')} = nondet_usize(); "
            f"{H.lv(self.h, 'block_anchor.Some.0.code_hash')} = nondet_uchar(); {H.lv(self.h, 'block_anchor.Some.0.code.d')} = 0;")
        for i in range(HN):
            H.c(f"{H.lv(self.h, 'entries.e.state.locked', [i])} = 0; {self.inc(i)} = nondet_usize(); __CPROVER_assume({self.inc(i)} <= 3);")
            H.c(f"{H.lv(self.val, 'd', [i])} = nondet_bool(); {self.kind(i)} = nondet_uchar(); __CPROVER_assume({self.kind(i)} < 3); {self.reward(i)} = nondet_uchar();")
            H.c(f"{H.lv(self.eff, 'Snapshot.0.d', [i])} = nondet_bool(); {self.snap_f(i, 'balance')} = nondet_uchar(); {self.snap_f(i, 'nonce')} = nondet_usize(); "
                f"{self.snap_f(i, 'code_hash')} = nondet_uchar(); {H.lv(self.eff, 'Snapshot.0.Some.0.code.d', [i])} = 0;")
            # a deferred reward is never zero (BeneficiaryReward::defer asserts it)
            H.assume(f"{self.reward(i)} != 0")


def build_h3():
    def b(tr):
        H = hz.Harness(tr, "c07_h3")
        hist = H.local("hist", "BeneficiaryHistory")
        hx = Hist(H, hist)
        hx.havoc()
        H.cvar("j", "usize", shared=False)
        H.c(f"j = nondet_usize(); __CPROVER_assume(j <= {HN});")
        # ---- oracle: walk back from j-1 (C, unrolled) ------------------------------------------------
        for nm, ct in (("o_err", "_Bool"), ("o_blocker", "usize"), ("o_stop", "_Bool"), ("o_norig", "usize"), ("o_some", "_Bool"), ("o_bal", HW), ("o_nonce", "u64"), ("o_ch", HW)):
            H.cvar(nm, ct, shared=False)
        H.cvar("o_orig_tx", "usize", dims=[HN], shared=False); H.cvar("o_orig_inc", "usize", dims=[HN], shared=False)
        H.cvar("o_rw", HW, dims=[HN], shared=False); H.cvar("o_isrw", "_Bool", dims=[HN], shared=False)
        H.c("o_err = 0; o_blocker = 0; o_stop = 0; o_norig = 0;")
        H.c(f"o_some = {H.lv(hist, 'block_anchor.d')} == 1; o_bal = {H.lv(hist, 'block_anchor.Some.0.balance')}; o_nonce = {H.lv(hist, 'block_anchor.Some.0.nonce')}; o_ch = {H.lv(hist, 'block_anchor.Some.0.code_hash')};")
        for i in range(HN):
            H.c(f"o_isrw[{i}] = 0; o_rw[{i}] = 0;")
        for w in reversed(range(HN)):
            H.c(f"if ({w} < j && !o_err && !o_stop) {{")
            H.c(f"  if ({hx.is_est(w)}) {{ o_err = 1; o_blocker = {w}; }} else {{")
            H.c(f"    o_orig_tx[o_norig] = {w}; o_orig_inc[o_norig] = {hx.inc(w)}; o_norig++;")
            H.c(f"    if ({hx.kind(w)} == {hx.k('Reward')}) {{ o_isrw[{w}] = 1; o_rw[{w}] = {hx.reward(w)}; }}")
            H.c(f"    if ({hx.kind(w)} == {hx.k('Snapshot')}) {{ o_stop = 1; o_some = {hx.snap_some(w)}; o_bal = {hx.snap_f(w, 'balance')}; o_nonce = {hx.snap_f(w, 'nonce')}; o_ch = {hx.snap_f(w, 'code_hash')}; }}")
            H.c("  } }")
        # apply the collected rewards oldest first, each with its own checked add (absent account: default account = balance 0, nonce 0, empty code hash)
        for w in range(HN):
            H.c(f"if (o_isrw[{w}] && !o_err) {{ if (!o_some) {{ o_some = 1; o_bal = 0; o_nonce = 0; o_ch = 1; }} if (({HW})(o_bal + o_rw[{w}]) >= o_bal) o_bal = ({HW})(o_bal + o_rw[{w}]); }}")
        res = H.local("res", "Result<BeneficiaryRead, usize>")
        H.call("BeneficiaryHistory::resolve_before", [H.ref(hist), H.val("j")], res)
        d = H.lv(res, "d")
        ok, err = H.variant(res, "", "Ok"), H.variant(res, "", "Err")
        H.assert_(f"({d} == {err}) == o_err", "resolve_before fails exactly when an estimate is met before a snapshot / the anchor")
        H.assert_(f"!o_err || {H.lv(res, 'Err.0')} == o_blocker", "the error names the first (newest) estimate met walking backwards")
        acc = H.nav(res, "Ok.0.account")
        H.assert_(f"o_err || ({H.lv(acc, 'd')} == 1) == o_some", "existence: nearest snapshot / anchor, materialised by a (non-zero) reward")
        H.assert_(f"o_err || !o_some || ({H.lv(acc, 'Some.0.balance')} == o_bal && {H.lv(acc, 'Some.0.nonce')} == o_nonce && {H.lv(acc, 'Some.0.code_hash')} == o_ch)",
                  "the account is the base with every later reward applied oldest-first, each addition checked on its own (overflow keeps the balance)")
        org = H.nav(res, "Ok.0.version.origins")
        H.assert_(f"o_err || {H.lv(org, 'len')} == o_norig", "origins: every exact entry walked, down to and including the snapshot")
        for k in range(HN):
            H.assert_(f"o_err || !({k} < o_norig) || ({H.lv(org, 'e.txid', [k])} == o_orig_tx[{k}] && {H.lv(org, 'e.incarnation', [k])} == o_orig_inc[{k}])",
                      f"origin {k} is (writer, incarnation) of the {k}-th newest contributing entry")
        # ---- validate the read just taken: valid, dependency = newest origin ------------------------------------------
        val = H.local("val", "BeneficiaryValidation")
        H.c(f"if ({d} == {ok}) {{")
        H.call("BeneficiaryHistory::validate", [H.ref(hist), H.val("j"), H.ref(res, "Ok.0.version")], val)
        H.assert_(f"{H.lv(val, 'valid')}", "an unchanged history validates the read")
        H.assert_(f"({H.lv(val, 'dependency.d')} == 1) == (o_norig > 0) && (o_norig == 0 || {H.lv(val, 'dependency.Some.0')} == o_orig_tx[0])", "dependency = newest contributing writer")
        # ---- one entry gets a newer incarnation (re-execution): the old read is invalid iff that entry is in the chain ----
        H.cvar("w2", "usize", shared=False); H.cvar("inc2", "usize", shared=False); H.cvar("in_chain", "_Bool", shared=False); H.cvar("recorded", "_Bool", shared=False)
        H.c(f"w2 = nondet_usize(); __CPROVER_assume(w2 < {HN}); inc2 = nondet_usize(); __CPROVER_assume(inc2 <= 4);")
        H.c("in_chain = 0;")
        for k in range(HN):
            H.c(f"if ({k} < o_norig && o_orig_tx[{k}] == w2) in_chain = 1;")
        tv = H.local("tv", "TxVersion")
        H.c(f"{H.lv(tv, 'txid')} = w2; {H.lv(tv, 'incarnation')} = inc2;")
        H.cvar("old_inc", "usize", shared=False)
        H.c(f"old_inc = {hx.inc('w2')};")
        rb = H.local("rb", "bool")
        H.call("BeneficiaryHistory::record_estimate", [H.ref(hist), H.ref(tv)], rb)
        H.assert_(f"{H.lv(rb)} == (inc2 > old_inc)", "a publication is accepted only for a strictly newer incarnation")
        H.assert_(f"{H.lv(rb)} ? ({hx.inc('w2')} == inc2 && {hx.is_est('w2')}) : ({hx.inc('w2')} == old_inc)", "accepted: entry replaced; refused: entry untouched")
        val2 = H.local("val2", "BeneficiaryValidation")
        H.call("BeneficiaryHistory::validate", [H.ref(hist), H.val("j"), H.ref(res, "Ok.0.version")], val2)
        H.assert_(f"!({H.lv(rb)} && (in_chain || w2 < j)) || !{H.lv(val2, 'valid')} || !(w2 < j) || (!in_chain && 0)" if False else
                  f"!({H.lv(rb)} && in_chain) || !{H.lv(val2, 'valid')}", "a read whose origin chain contains a re-published entry no longer validates")
        H.assert_(f"!(!{H.lv(rb)}) || {H.lv(val2, 'valid')}", "a refused (stale) publication changes nothing for readers")
        H.c("}")
        H.cover(f"{d} == {ok} && o_norig == 3", "three contributing entries")
        H.cover(f"{d} == {ok} && o_stop && o_norig == 2", "chain cut by a snapshot")
        H.cover(f"{d} == {err}", "estimate met")
        return H
    return b


def build_h4():
    def b(tr):
        H = hz.Harness(tr, "c07_h4")
        hist = H.local("hist", "BeneficiaryHistory")
        hx = Hist(H, hist)
        hx.havoc()
        tv = H.local("tv", "TxVersion")
        H.c(f"{H.lv(tv, 'txid')} = nondet_usize(); __CPROVER_assume({H.lv(tv, 'txid')} < {HN}); {H.lv(tv, 'incarnation')} = nondet_usize(); __CPROVER_assume({H.lv(tv, 'incarnation')} <= 4);")
        w = H.lv(tv, "txid")
        H.cvar("old_inc", "usize", shared=False); H.cvar("was_est", "_Bool", shared=False)
        H.c(f"old_inc = {hx.inc(w)}; was_est = {hx.is_est(w)};")
        rb = H.local("rb", "bool")
        H.call("BeneficiaryHistory::invalidate", [H.ref(hist), H.ref(tv)], rb)
        H.assert_(f"{H.lv(rb)} == ({H.lv(tv, 'incarnation')} == old_inc)", "invalidate acts only on the exact incarnation that validation inspected")
        H.assert_(f"{hx.inc(w)} == old_inc", "invalidate never changes the incarnation")
        H.assert_(f"{hx.is_est(w)} == (was_est || {H.lv(rb)})", "the inspected exact entry becomes an estimate; a delayed invalidation of an older incarnation leaves newer data alone")
        H.cover(f"{H.lv(rb)} && !was_est", "exact entry invalidated"); H.cover(f"!{H.lv(rb)}", "stale invalidation refused")
        return H
    return b


# ------------------------------------------------------------------------------------------------ h5: beneficiary read through IncarnationDb
def build_h5():
    import idb_common as ic
    import c08

    def b(tr):
        H = hz.Harness(tr, "c07_h5")
        ic.declare_db(H)
        J = HN
        # IncarnationDb over a REAL Beneficiary (address 1) with an arbitrary history
        bene = H.local("bene", "Beneficiary")
        back = H.local("back", "DB")
        mv = H.local("mv", "MVMemory")
        idb = H.local("idb", "IncarnationDb<DB>")
        tr.store(Loc(H.nav(idb, "beneficiary"), []), VRef(bene, []))
        tr.store(Loc(H.nav(idb, "backing_db"), []), VRef(back, []))
        tr.store(Loc(H.nav(idb, "mv_memory"), []), VRef(mv, []))
        H.c(f"{H.lv(bene, 'address')} = 1; {H.lv(idb, 'blocked_by_beneficiary')} = 0;")
        H.cvar("j", "usize", shared=False)
        H.c(f"j = nondet_usize(); __CPROVER_assume(j <= {J}); {H.lv(idb, 'version.txid')} = j; {H.lv(idb, 'version.incarnation')} = 1;")
        for k in range(ic.KL):
            H.c(f"{H.lv(idb, 'read_set.present.e', [k])} = 0; {H.lv(mv, 'slots.e.locked', [k])} = 0; {H.lv(mv, 'slots.e.data.present', [k])} = 0;")
        for a_ in range(ic.A):
            H.c(f"{H.lv(idb, 'account_snapshots.present.e', [a_])} = 0;")
        for t in range(H.nav(idb, "blocking_txs.present").cap):
            H.c(f"{H.lv(idb, 'blocking_txs.present.e', [t])} = 0;")
        hx = Hist(H, H.nav(bene, "history"))
        hx.havoc()
        # reference: the history's own resolution (decided against its oracle in h3) on an identical copy taken before the read
        ref = H.local("ref", "Result<BeneficiaryRead, usize>")
        H.call("BeneficiaryHistory::resolve_before", [H.ref(bene, "history"), H.val("j")], ref)
        res = H.local("res", "Result<Option<AccountInfo>, DBError>")
        H.call("<IncarnationDb as Database>::basic", [H.ref(idb), H.val("1", "unsigned char")], res)
        rd = H.lv(ref, "d")
        okr, errr = H.variant(ref, "", "Ok"), H.variant(ref, "", "Err")
        H.assert_(f"{H.lv(res, 'd')} == {H.variant(res, '', 'Ok')}", "a beneficiary read never faults: it does not touch the backing store")
        opt = H.nav(res, "Ok.0")
        racc = H.nav(ref, "Ok.0.account")
        H.assert_(f"!({rd} == {okr}) || ({H.lv(opt, 'd')} == {H.lv(racc, 'd')} && ({H.lv(opt, 'd')} == 0 || ({H.lv(opt, 'Some.0.balance')} == {H.lv(racc, 'Some.0.balance')} && "
                  f"{H.lv(opt, 'Some.0.nonce')} == {H.lv(racc, 'Some.0.nonce')} && {H.lv(opt, 'Some.0.code_hash')} == {H.lv(racc, 'Some.0.code_hash')})))",
                  "a transaction reading the fee recipient observes exactly the history's resolution: anchor / snapshot plus the preceding credits")
        kb = 1
        rs = H.nav(idb, "read_set.vals.e")
        H.assert_(f"!({rd} == {okr}) || ({H.lv(idb, 'read_set.present.e', [kb])} && {H.lv(rs, 'd', [kb])} == {H.variant(rs, '', 'Beneficiary')})",
                  "the read is recorded as a Beneficiary read version")
        ro = H.nav(ref, "Ok.0.version.origins")
        so = H.nav(rs, "Beneficiary.0.origins")
        H.assert_(f"!({rd} == {okr}) || {H.lv(so, 'len', [kb])} == {H.lv(ro, 'len')}", "... carrying the whole origin chain")
        for k in range(HN):
            H.assert_(f"!({rd} == {okr} && {k} < {H.lv(ro, 'len')}) || ({H.lv(so, 'e.txid', [kb, k])} == {H.lv(ro, 'e.txid', [k])} && {H.lv(so, 'e.incarnation', [kb, k])} == {H.lv(ro, 'e.incarnation', [k])})",
                      f"origin {k} recorded")
        H.assert_(f"!({rd} == {okr}) || (!{H.lv(idb, 'blocked_by_beneficiary')} && db_basic_reads == 0)", "an exact read neither blocks nor consults the mutable committed cache / backing store")
        bt = H.nav(idb, "blocking_txs.present")
        for t in range(bt.cap):
            H.assert_(f"{H.lv(idb, 'blocking_txs.present.e', [t])} == ({rd} == {errr} && {H.lv(ref, 'Err.0')} == {t})", f"tx {t} blocks the reader iff it is the estimate met first")
        H.assert_(f"!({rd} == {errr}) || ({H.lv(idb, 'blocked_by_beneficiary')} && {H.lv(opt, 'd')} == 0 && !{H.lv(idb, 'read_set.present.e', [kb])} && db_basic_reads == 0)",
                  "an estimate blocks the incarnation: flagged, absent account handed to the EVM, nothing recorded, no second history anchor read")
        H.cover(f"{rd} == {okr} && {H.lv(ro, 'len')} >= 2", "a chain of two origins"); H.cover(f"{rd} == {errr}", "blocked by an estimate")
        return H
    return b


def h5_cfg():
    import idb_common as ic
    c = ic.cfg(HN)
    ov = c["type_overrides"]
    for k in ("Beneficiary", "BeneficiaryReadVersion"):
        ov.pop(k, None)
    for k in ("Beneficiary::matches", "Beneficiary::resolve_before"):
        c["stubs"].pop(k, None)
    c["loops"] = {"BeneficiaryHistory::scan_before": {"*": (HN + 1, "assert")}}
    return c


def specs(tier):
    import c03
    out = [Spec("h1_apply_rule", build_h1(), cfg=cfg(), unwind=3, timeout=2700,
                desc="real BeneficiaryMode::apply + BeneficiaryReward::from_gas with revm's context/journal/hook uninterpreted",
                bounds={"gas_and_price_bits": 6, "forks": "all SpecId values"})]
    for s in c03.specs(tier):
        if s.name == "h1_commit_nonce":
            s.name = "h2_commit_fold"
            out.append(s)
    out.append(Spec("h3_history_resolve_validate", build_h3(), cfg=hist_cfg(), unwind=HN + 3, timeout=2700,
                    desc="real BeneficiaryHistory::{resolve_before, validate, record_estimate} from ANY entry vector (3 transactions: estimate / unchanged / reward / "
                         "snapshot, any incarnations, any anchor)", bounds={"n": HN, "value_bits": 8}))
    out.append(Spec("h4_history_invalidate", build_h4(), cfg=hist_cfg(), unwind=HN + 3, timeout=1800,
                    desc="real BeneficiaryHistory::invalidate from any entry vector", bounds={"n": HN}))
    out.append(Spec("h5_beneficiary_read", build_h5(), cfg=h5_cfg(), unwind=HN + 3, timeout=2700,
                    desc="real IncarnationDb::basic on the fee recipient over a real Beneficiary with ANY 3-entry history: value, Beneficiary read version, blocking",
                    bounds={"n": HN, "value_bits": 8}))
    import c02
    for s_ in c02.specs(tier):
        if s_.name == "validate_conflict_retracts_n3_l2":
            s_.name = "h6_failed_validation_invalidates_history"
            out.append(s_)
    return out
