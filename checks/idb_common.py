"""Shared pieces of the IncarnationDb kernels (C01-H2, C08, C09): abstract address / slot domains, the location key
function, MV-memory havoc with the representation invariant of publish_value, the ghost backing database."""
import revm_types
import revm_models
import sched_common as sc
from translate import StructN, ScalarN, UnitN, Loc, VAgg, VRef, VScalar, VLoc, TranslateError

A = 2       # abstract addresses 0..A-1
SL = 2      # abstract slot ids 0..SL-1
KL = 3 * A + A * SL     # location keys: Basic(a)=a, StorageReset(a)=A+a, Code(a)=2A+a, Storage(a,s)=3A+a*SL+s
WIDE = "unsigned char"
BENE = 9    # the beneficiary's address id: outside the address domain of these kernels


def loc_key(tr, loc):
    n = loc.node
    d = tr.lv(Loc(n.discr, loc.idxs))
    vb = n.variants[n.vindex("Basic")][1].fields[0]
    vs = n.variants[n.vindex("Storage")][1]
    vr = n.variants[n.vindex("StorageReset")][1].fields[0]
    vc = n.variants[n.vindex("Code")][1].fields[0]
    g = lambda x: tr.lv(Loc(x, loc.idxs))
    return (f"({d} == {n.vindex('Basic')} ? (usize){g(vb)} : {d} == {n.vindex('StorageReset')} ? (usize)({A} + {g(vr)}) : "
            f"{d} == {n.vindex('Code')} ? (usize)({2 * A} + {g(vc)}) : (usize)({3 * A} + {g(vs.fields[0])} * {SL} + {g(vs.fields[1])}))")


def key_basic(a): return f"({a})"
def key_reset(a): return f"({A} + ({a}))"
def key_code(a): return f"({2 * A} + ({a}))"
def key_slot(a, s): return f"({3 * A} + ({a}) * {SL} + ({s}))"


def addr_key(tr, loc):
    return f"(usize){tr.lv(loc)}"


def stub_matches(tr, c):
    """Beneficiary::matches(address): the beneficiary is outside the address domain of these kernels"""
    a = c.args[1]
    c.ret(VScalar(f"(({tr.as_scalar(a).expr}) == {BENE})", "_Bool"))


def db_stubs():
    """the backing database is a ghost: fixed arrays chosen by the solver, no faults (faults: C04)"""
    def basic_ref(tr, c):
        a = tr.as_scalar(c.args[1]).expr
        d = c.dest()
        n = d.node
        ok = n.variants[n.vindex("Ok")][1].fields[0]        # Option<AccountInfo>
        tr.emit(f"{tr.lv(Loc(n.discr, d.idxs))} = {n.vindex('Ok')}; db_basic_reads++; __CPROVER_assume({a} < {A});")
        info = ok.variants[ok.vindex("Some")][1].fields[0]
        tr.emit(f"{tr.lv(Loc(ok.discr, d.idxs))} = db_exists[{a}] ? {ok.vindex('Some')} : {ok.vindex('None')};")
        tr.emit(f"{tr.lv(Loc(info.f('balance'), d.idxs))} = db_balance[{a}]; {tr.lv(Loc(info.f('nonce'), d.idxs))} = db_nonce[{a}]; "
                f"{tr.lv(Loc(info.f('code_hash'), d.idxs))} = db_code_hash[{a}];")
        code = info.f("code")
        tr.emit(f"{tr.lv(Loc(code.discr, d.idxs))} = {code.vindex('None')};")

    def storage_ref(tr, c):
        a, s = tr.as_scalar(c.args[1]).expr, tr.as_scalar(c.args[2]).expr
        d = c.dest()
        n = d.node
        tr.emit(f"{tr.lv(Loc(n.discr, d.idxs))} = {n.vindex('Ok')}; db_storage_reads++; __CPROVER_assume({a} < {A} && {s} < {SL});")
        tr.emit(f"{tr.lv(Loc(n.variants[n.vindex('Ok')][1].fields[0], d.idxs))} = db_slot[{a}][{s}];")

    def code_ref(tr, c):
        h = tr.as_scalar(c.args[1]).expr
        d = c.dest()
        n = d.node
        tr.emit(f"{tr.lv(Loc(n.discr, d.idxs))} = {n.vindex('Ok')}; db_code_reads++;")
        tr.emit(f"{tr.lv(Loc(n.variants[n.vindex('Ok')][1].fields[0].fields[0], d.idxs))} = (unsigned char)(100 + ({h}));")
    return {"<DB as DatabaseRef>::basic_ref": basic_ref, "<DB as DatabaseRef>::storage_ref": storage_ref,
            "<DB as DatabaseRef>::code_by_hash_ref": code_ref, "Beneficiary::matches": stub_matches,
            "Beneficiary::resolve_before": lambda tr, c: None}    # unreachable: the beneficiary is outside these kernels' address domain


def declare_db(H):
    for nm, ct, dims in (("db_exists", "_Bool", [A]), ("db_balance", "u64", [A]), ("db_nonce", "u64", [A]), ("db_code_hash", "u64", [A]),
                         ("db_slot", "u64", [A, SL])):
        H.cvar(nm, ct if ct != "u64" else WIDE, dims=dims, shared=False)
    for nm in ("db_basic_reads", "db_storage_reads", "db_code_reads"):
        H.cvar(nm, "unsigned char", shared=False)
        H.c(f"{nm} = 0;")
    for a in range(A):
        H.c(f"db_exists[{a}] = nondet_bool(); db_balance[{a}] = nondet_usize(); db_nonce[{a}] = nondet_usize(); db_code_hash[{a}] = nondet_usize();")
        for s in range(SL):
            H.c(f"db_slot[{a}][{s}] = nondet_usize();")


def cfg(N, stubs=None, wide="unsigned char", **kw):
    ov = revm_types.base_overrides()
    for k in ("ParallelState", "DelegatedSafetyConfig", "Beneficiary"):
        ov[k] = revm_types.unit
    ov.update(revm_models.type_overrides(wide))
    ov["BeneficiaryReadVersion"] = sc.t_spec_result
    st = db_stubs()
    st.update(stubs or {})
    c = {"type_overrides": ov, "stubs": st, "cap": N, "noops": [r"metrics", r"ExecuteMetricsCollector", r"Histogram"],
         "dead_calls": sc.TRACING_DEAD, "opaque_types": [r"tracing"],
         "key_fns": {"LocationAndType": loc_key},
         "key_caps": {"LocationAndType": KL, "Address": A, "Uint": SL, "U256": SL, "StorageKey": SL},
         "key_cap": KL, "btree_cap": N, "set_iter_cap": max(N, KL),
         "consts": revm_models.consts(), "extra_src": revm_models.extra_src_roots(),
         "aliases": {"EvmState": "HashMap<Address, Account>", "EvmStorage": "HashMap<StorageKey, EvmStorageSlot>"},
         "panic_ok": []}
    c["stubs"].setdefault("<Level as PartialOrd>::le", sc.m_level_le)
    c.update(kw)
    return c


class MV:
    """accessors + havoc for the MV memory model of an IncarnationDb harness (mv: SNode of MVMemory)"""

    def __init__(self, H, mv, N):
        self.H, self.mv, self.N = H, mv, N
        self.slots = H.nav(mv, "slots.e")
        self.entry = H.nav(self.slots, "data.val.vals.e")      # MemoryEntry
        self.data = H.nav(self.entry, "data")                  # MemoryValue

    def key_present(self, k): return self.H.lv(self.slots, "data.present", [k])
    def present(self, k, t): return self.H.lv(self.slots, "data.val.present.e", [k, t])
    def inc(self, k, t): return self.H.lv(self.entry, "incarnation", [k, t])
    def est(self, k, t): return self.H.lv(self.entry, "estimate", [k, t])
    def kind(self, k, t): return self.H.lv(self.data, "d", [k, t])
    def vkind(self, name): return self.H.variant(self.data, "", name)
    def slot_value(self, k, t): return self.H.lv(self.data, "Storage.0", [k, t])
    def basic_some(self, k, t): return f"({self.H.lv(self.data, 'Basic.0.d', [k, t])} == {self.H.variant(self.H.nav(self.data, 'Basic.0'), '', 'Some')})"
    def basic_f(self, k, t, f): return self.H.lv(self.data, "Basic.0.Some.0." + f, [k, t])
    def code_id(self, k, t): return self.H.lv(self.data, "Code.0.id", [k, t])

    def kind_of_key(self, k):
        """the MemoryValue variant that publish_value stores at location key k (static: k is a Python int)"""
        if k < A:
            return "Basic"
        if k < 2 * A:
            return "StorageReset"
        if k < 3 * A:
            return "Code"
        return "Storage"

    def havoc(self, below):
        """arbitrary entries of transactions < below; representation invariant: the value kind matches the location kind,
        a key is present iff it has an entry, published account values carry no code"""
        H = self.H
        for k in range(KL):
            H.c(f"{H.lv(self.slots, 'locked', [k])} = 0; {self.key_present(k)} = nondet_bool();")
            anyp = []
            for t in range(self.N):
                H.c(f"{self.present(k, t)} = nondet_bool(); {self.inc(k, t)} = nondet_usize(); {self.est(k, t)} = nondet_bool(); {self.kind(k, t)} = {self.vkind(self.kind_of_key(k))};")
                H.assume(f"{self.inc(k, t)} >= 1 && {self.inc(k, t)} <= 3")
                if isinstance(below, int) and t >= below:
                    H.c(f"{self.present(k, t)} = 0;")
                else:
                    H.assume(f"{t} < {below} || !{self.present(k, t)}")
                anyp.append(self.present(k, t))
                if self.kind_of_key(k) == "Storage":
                    H.c(f"{self.slot_value(k, t)} = nondet_usize();")
                if self.kind_of_key(k) == "Basic":
                    bn = H.nav(self.data, "Basic.0")
                    H.c(f"{H.lv(bn, 'd', [k, t])} = nondet_bool();")
                    for f in ("balance", "nonce", "code_hash"):
                        H.c(f"{self.basic_f(k, t, f)} = nondet_usize();")
                    H.c(f"{H.lv(bn, 'Some.0.code.d', [k, t])} = 0;")
                if self.kind_of_key(k) == "Code":
                    H.c(f"{self.code_id(k, t)} = nondet_uchar();")
            H.assume(f"{self.key_present(k)} || !({' || '.join(anyp)})")

    def latest_below(self, k, j, prefix):
        """emit C computing the latest entry of key k strictly below transaction j: <prefix>_has, <prefix>_tx"""
        H = self.H
        H.cvar(f"{prefix}_has", "_Bool", shared=False); H.cvar(f"{prefix}_tx", "usize", shared=False)
        H.c(f"{prefix}_has = 0; {prefix}_tx = 0;")
        for t in range(self.N):
            H.c(f"if ({t} < {j} && {self.key_present(k)} && {self.present(k, t)}) {{ {prefix}_has = 1; {prefix}_tx = {t}; }}")
