"""C04  Errors are faithful and leave an exact committed prefix.

Real code (MIR -> C): control.rs::post_execute (+ fallback_after_parallel_error), scheduler.rs::{run_commit_loop,
install_commit_loop_result, execute_task (error branch)}, fallback.rs::{execute_sequential_suffix,
replay_uncommitted_suffix (prefix guard)}.

  h1_post_execute   : every abort reason x arbitrary tx_results: returned error / replay start = committed boundary
  h2_commit_loop    : run_commit_loop + install_commit_loop_result with solver-chosen per-step commit outcomes
                      (committed / needs-fallback / database error) and arbitrary finality: outcomes length =
                      published cursor = k, error txid = k, abort reason recorded, nothing after the failing step
  h3_seq_suffix     : execute_sequential_suffix with a solver-chosen transact oracle: prefix on fatal error, Skipped
                      carries the oracle's error, later transactions still run
  h4_replay_guard   : replay_uncommitted_suffix refuses a prefix/outcome mismatch without touching anything
  h5_error_at_head  : the real execute_task error branch racing the commit publication: a fatal / fallback abort is
                      only raised by an attempt that STARTED at the commit head (finding F2)
"""
from run import Spec
import harness as hz
from translate import Loc, VAgg, VRef, VScalar, VLoc, VUnit, TranslateError
import revm_types
import sched_common as sc


# ------------------------------------------------------------------------------------------------ h1
def build_h1(N):
    def b(tr):
        H = hz.Harness(tr, "c04_h1")
        S = H.local("S", "Scheduler<DB>")
        sc.freeze_sched(H, S, N)
        res = H.local("res", "Result<(), GrevmError<DBError>>")
        H.cvar("replays", "unsigned char", shared=False); H.cvar("replay_from", "usize", shared=False)
        H.cvar("replay_ok", "_Bool", shared=False); H.cvar("c", "usize", shared=False)
        H.c("replays = 0; replay_from = 99; replay_ok = nondet_bool();")
        sc.havoc_abort(H, S, N)
        sc.havoc_tx_results(H, S, N)
        H.c(f"{H.lv(S, 'scheduler_ctx.committed')} = nondet_usize(); __CPROVER_assume({H.lv(S, 'scheduler_ctx.committed')} <= {N});")
        H.c(f"c = nondet_usize(); __CPROVER_assume(c <= {N});")
        H.call("Scheduler::post_execute", [H.ref(S), VAgg([H.val("c")])], res)
        ab = H.lv(S, "abort")
        rs = H.lv(S, "abort_reason.set")
        rv = H.nav(S, "abort_reason.val")
        rd = H.lv(rv, "d")
        V = lambda n: H.variant(rv, "", n)
        d = H.lv(res, "d")
        ok, err = H.variant(res, "", "Ok"), H.variant(res, "", "Err")
        e = H.nav(res, "Err.0")
        replayed = f"(replays == 1 && replay_from == c && ({d} == {ok}) == replay_ok && ({d} == {ok} || {H.lv(e, 'txid')} == 88))"
        H.assert_(f"{ab} || ({d} == {ok} && replays == 0)", "not aborted: success, no replay")
        # FatalEvmError(t)
        t = H.lv(rv, "FatalEvmError.0")
        for i in range(N):
            tr_i = H.nav(S, "tx_results.e.data")
            has_err = (f"({H.lv(tr_i, 'd', [i])} == {H.variant(tr_i, '', 'Some')} && "
                       f"{H.lv(tr_i, 'Some.0.execute_result.d', [i])} == {H.variant(H.nav(tr_i, 'Some.0.execute_result'), '', 'Err')})")
            fatal_i = f"({ab} && {rs} && {rd} == {V('FatalEvmError')} && {t} == {i})"
            ecode = H.lv(tr_i, "Some.0.execute_result.Err.0.d", [i])
            H.assert_(f"!({fatal_i} && {has_err}) || ({d} == {err} && {H.lv(e, 'txid')} == {i} && {H.lv(e, 'error.d')} == {ecode} && replays == 0)",
                      f"fatal abort at tx {i}: its recorded error is returned with its index, no replay")
            H.assert_(f"!({fatal_i} && {has_err} && {ecode} == {H.variant(e, 'error', 'Database')}) || "
                      f"{H.lv(e, 'error.Database.0')} == {H.lv(tr_i, 'Some.0.execute_result.Err.0.Database.0', [i])}",
                      f"fatal abort at tx {i}: database error payload unchanged")
            H.assert_(f"!({fatal_i} && !{has_err}) || {replayed}", f"fatal abort at tx {i} without an error: suffix replay from the committed boundary")
        H.assert_(f"!({ab} && {rs} && {rd} == {V('FatalEvmError')} && {t} >= {N}) || {replayed}", "fatal abort naming no transaction: replay")
        ce = H.nav(rv, "CommitError.0")
        H.assert_(f"!({ab} && {rs} && {rd} == {V('CommitError')}) || ({d} == {err} && {H.lv(e, 'txid')} == {H.lv(ce, 'txid')} && "
                  f"{H.lv(e, 'error.d')} == {H.lv(ce, 'error.d')} && replays == 0)", "commit error is returned unchanged")
        H.assert_(f"!({ab} && {rs} && ({rd} == {V('ParallelError')} || {rd} == {V('FallbackSequential')})) || {replayed}",
                  "parallel error / fallback request: replay exactly from the committed boundary")
        H.assert_(f"!({ab} && !{rs}) || {replayed}", "abort without a reason: replay from the committed boundary")
        H.cover(f"{ab} && {rs} && {rd} == {V('FatalEvmError')} && {d} == {err}", "fatal error returned")
        H.cover("replays == 1", "a replay happened")
        return H
    return b


def replay_stub(tr, c):
    """Scheduler::replay_uncommitted_suffix(committed) -> ghost: records the start boundary, returns a chosen result"""
    d = c.dest()
    a = tr.as_scalar(c.args[1]) if not isinstance(c.args[1], VAgg) else tr.as_scalar(c.args[1].vals[0])
    tr.emit(f"replays++; replay_from = {a.expr};")
    n = d.node
    oki, erri = n.vindex("Ok"), n.vindex("Err")
    tr.emit(f"{tr.lv(Loc(n.discr, d.idxs))} = replay_ok ? {oki} : {erri};")
    e = n.variants[erri][1].fields[0]
    tr.emit(f"{tr.lv(Loc(e.f('txid'), d.idxs))} = 88;")


# ------------------------------------------------------------------------------------------------ h2
def commit_stub(N):
    def stub(tr, c):
        """OrderedCommitter::commit -> ghost with a solver-chosen plan per index: 0 committed (real OrderedCommitOutput::push),
        1 needs-sequential-fallback, 2 database error.  Checks the calls are contiguous and below finality."""
        d = c.dest()
        txid = tr.as_scalar(c.args[1]).expr
        sr = c.args[3]                       # SpeculativeResult (opaque id)
        out = c.args[4]                      # &mut OrderedCommitOutput
        tr.emit(f'__CPROVER_assert({txid} == commit_calls, "PROP commit is called for consecutive indices starting at 0, each once");')
        tr.emit(f'__CPROVER_assert({txid} < fin_seen_max, "PROP commit only for indices below the published finality boundary");')
        tr.emit(f"__CPROVER_assume({txid} < {N}); commit_calls++;")
        n = d.node
        oki, erri = n.vindex("Ok"), n.vindex("Err")
        okv = n.variants[oki][1].fields[0]          # CommitOutcome
        tr.emit(f"if (plan[{txid}] == 0) {{")
        tr.emit(f"{tr.lv(Loc(n.discr, d.idxs))} = {oki}; {tr.lv(Loc(okv.discr, d.idxs))} = {okv.vindex('Committed')};")
        push = tr.find_fn("OrderedCommitOutput::push")
        sid = tr.as_scalar(VLoc(Loc(sr.loc.node.fields[0], sr.loc.idxs)) if isinstance(sr, VLoc) else sr)
        resn = tr.alloc(tr.parse_ty("ExecutionResult"), f"pushres{tr.uid}", [], tr.cur.storage)
        tr.emit(f"{tr.lv(Loc(resn.fields[0], []))} = {sid.expr};")
        tr.inline(push, [out, VLoc(Loc(resn, []))], Loc(okv.variants[okv.vindex('Committed')][1].fields[0], d.idxs))
        tr.emit(f"}} else if (plan[{txid}] == 1) {{")
        tr.emit(f"{tr.lv(Loc(n.discr, d.idxs))} = {oki}; {tr.lv(Loc(okv.discr, d.idxs))} = {okv.vindex('NeedsSequentialFallback')};")
        tr.emit("} else {")
        e = n.variants[erri][1].fields[0]
        tr.emit(f"{tr.lv(Loc(n.discr, d.idxs))} = {erri}; {tr.lv(Loc(e.f('txid'), d.idxs))} = {txid};")
        tr.emit(f"{tr.lv(Loc(e.f('error').discr, d.idxs))} = {e.f('error').vindex('Database')}; "
                f"{tr.lv(Loc(e.f('error').variants[e.f('error').vindex('Database')][1].fields[0], d.idxs))} = 40 + {txid};")
        tr.emit("}")
    return stub


def wait_env_stub(N):
    def stub(tr, c):
        """WaitSlot::wait_while in a sequential harness: the environment makes progress -- finality advances, or the run is
        aborted by someone else (with a solver-chosen first reason)"""
        S = "S"
        tr.emit("env_steps++; __CPROVER_assume(env_steps <= 2);")
        tr.emit("if (nondet_bool()) { S_abort_v = 1; if (!S_abort_reason_set) { S_abort_reason_set = 1; S_abort_reason_val_d = foreign_reason; foreign_abort = 1; } }")
        tr.emit(f"else {{ usize nf = nondet_usize(); __CPROVER_assume(nf > S_scheduler_ctx_finality_0_v && nf <= {N}); S_scheduler_ctx_finality_0_v = nf; fin_seen_max = nf; }}")
    return stub


def build_h2(N):
    def b(tr):
        H = hz.Harness(tr, "c04_h2")
        S = H.local("S", "Scheduler<DB>")
        sc.freeze_sched(H, S, N)
        CM = H.local("committer", "OrderedCommitter<DB>")
        H.cvar("plan", "unsigned char", dims=[N], shared=False); H.cvar("commit_calls", "usize", shared=False)
        H.cvar("fin_seen_max", "usize", shared=False); H.cvar("env_steps", "unsigned char", shared=False)
        H.cvar("foreign_reason", "unsigned char", shared=False); H.cvar("foreign_abort", "_Bool", shared=False)
        H.c("commit_calls = 0; env_steps = 0; foreign_abort = 0;")
        rv = H.nav(S, "abort_reason.val")
        H.c(f"foreign_reason = nondet_uchar(); __CPROVER_assume(foreign_reason == {H.variant(rv, '', 'FatalEvmError')} || foreign_reason == {H.variant(rv, '', 'ParallelError')} || foreign_reason == {H.variant(rv, '', 'FallbackSequential')});")
        for i in range(N):
            H.c(f"plan[{i}] = nondet_uchar(); __CPROVER_assume(plan[{i}] < 3);")
        sc.init_sched(H, S, N)
        sc.havoc_tx_results(H, S, N)
        # any transaction may be parked behind its own commit boundary (error before the prefix reached it); finalized ones are not
        H.cvar("parked_done", "_Bool", dims=[N], shared=False)
        for i in range(N):
            H.c(f"parked_done[{i}] = 0;")
        for i in range(1, N):
            dsn = "tx_dependency.dependent_state.e.data"
            H.c(f"if (nondet_bool()) {{ {H.lv(S, dsn + '.dependency.d', [i])} = 1; {H.lv(S, dsn + '.dependency.Some.0', [i])} = {i}; {H.lv(S, 'tx_dependency.index')} = {N}; }}")
        fin = H.lv(S, "scheduler_ctx.finality")
        H.c(f"{fin} = nondet_usize(); __CPROVER_assume({fin} <= {N}); fin_seen_max = {fin};")
        H.c(f"{H.lv(S, 'results.data.len')} = 0; {H.lv(S, 'results.locked')} = 0;")
        # remember the speculative result ids before the loop consumes them
        trn = H.nav(S, "tx_results.e.data")
        H.cvar("rid", "unsigned char", dims=[N], shared=False); H.cvar("rgood", "_Bool", dims=[N], shared=False)
        er = H.nav(trn, "Some.0.execute_result")
        for i in range(N):
            H.c(f"rid[{i}] = {H.lv(er, 'Ok.0.id', [i])}; rgood[{i}] = ({H.lv(trn, 'd', [i])} == {H.variant(trn, '', 'Some')} && {H.lv(er, 'd', [i])} == {H.variant(er, '', 'Ok')});")
        clr = H.local("clr", "CommitLoopResult<DBError>")
        H.call("Scheduler::run_commit_loop", [H.ref(S), H.ref(CM)], clr)
        inst = H.local("inst", "Result<CommittedPrefixEnd, GrevmError<DBError>>")
        H.call("Scheduler::install_commit_loop_result", [H.ref(S), VLoc(Loc(clr, []))], inst)
        com = H.lv(S, "scheduler_ctx.committed")
        rl = H.lv(S, "results.data.len")
        H.assert_(f"{rl} == {com}", "installed outcomes and the published committed cursor describe the same prefix")
        H.assert_(f"{com} <= fin_seen_max", "nothing committed beyond finality")
        rs = H.nav(S, "results.data.e")
        for i in range(N):
            H.assert_(f"!({i} < {com}) || (plan[{i}] == 0 && rgood[{i}] && {H.lv(rs, 'd', [i])} == {H.variant(rs, '', 'Executed')} && {H.lv(rs, 'Executed.0.id', [i])} == rid[{i}])",
                      f"outcome {i} of the committed prefix is tx {i}'s own finalized result, in order")
            H.assert_(f"!({i} < {com}) || {H.lv(trn, 'd', [i])} == {H.variant(trn, '', 'None')}", f"committed tx {i}'s result was consumed exactly once")
        d = H.lv(inst, "d")
        ok, err = H.variant(inst, "", "Ok"), H.variant(inst, "", "Err")
        e = H.nav(inst, "Err.0")
        ab = H.lv(S, "abort"); rset = H.lv(S, "abort_reason.set"); rd = H.lv(rv, "d")
        failing = f"({com} < {N} && {com} < fin_seen_max && commit_calls == {com} + 1 && plan[{com} < {N} ? {com} : 0] == 2)"
        H.assert_(f"({d} == {err}) == {failing}", "an error is returned iff the commit step at the boundary failed")
        H.assert_(f"!({d} == {err}) || ({H.lv(e, 'txid')} == {com} && {H.lv(e, 'error.d')} == {H.variant(e, 'error', 'Database')} && {H.lv(e, 'error.Database.0')} == 40 + {com})",
                  "the returned error carries the failing index (= committed boundary) and the exact database error")
        H.assert_(f"!({d} == {ok}) || {H.lv(inst, 'Ok.0.0')} == {com}", "the returned boundary equals the committed cursor")
        H.assert_(f"!({d} == {err}) || ({ab} && {rset} && (foreign_abort || ({rd} == {H.variant(rv, '', 'CommitError')} && {H.lv(rv, 'CommitError.0.txid')} == {com})))",
                  "a commit error aborts the run and records itself as the reason unless another reason came first")
        fb = f"({com} < {N} && commit_calls == {com} + 1 && plan[{com} < {N} ? {com} : 0] == 1)"
        H.assert_(f"!{fb} || ({ab} && {rset} && (foreign_abort || {rd} == {H.variant(rv, '', 'FallbackSequential')}))",
                  "a nonce mismatch at the boundary requests sequential fallback")
        bad = f"({com} < {N} && {com} < fin_seen_max && !rgood[{com} < {N} ? {com} : 0] && commit_calls == {com})"
        H.assert_(f"!{bad} || ({ab} && {rset} && (foreign_abort || ({rd} == {H.variant(rv, '', 'ParallelError')} && {H.lv(rv, 'ParallelError.txid')} == {com})))",
                  "a finalized transaction without a usable result aborts with a parallel error naming it")
        H.assert_(f"{com} == {N} || {ab}", "the loop only returns early when aborted")
        ds = "tx_dependency.dependent_state.e.data"
        for i in range(1, N):
            H.assert_(f"!({i} <= {com}) || ({H.lv(S, ds + '.dependency.d', [i])} == 0 && {H.lv(S, 'tx_dependency.index')} <= {i}) || parked_done[{i}]",
                      f"committing tx {i - 1} releases tx {i} parked behind its own commit boundary (barrier cleared, cursor rewound)")
        H.cover(f"{d} == {err} && {com} == 1", "error at step 1 with a committed prefix of 1")
        H.cover(f"{com} == {N}", "whole block committed")
        H.cover(f"{fb} && {com} == 2", "fallback request after two commits")
        H.cover("env_steps >= 2", "the loop waited twice")
        return H
    return b


# ------------------------------------------------------------------------------------------------ h3
def build_h3(N):
    def b(tr):
        H = hz.Harness(tr, "c04_h3")
        S = H.local("S", "Scheduler<DB>")
        sc.freeze_sched(H, S, N)
        H.freeze(S, "txs.0.len", f"((usize){N})")
        H.cvar("plan", "unsigned char", dims=[N], shared=False); H.cvar("calls", "usize", shared=False); H.cvar("start", "usize", shared=False)
        H.cvar("order_ok", "_Bool", shared=False); H.cvar("txref_checked", "_Bool", shared=False)
        H.c(f"txref_checked = 0; calls = 0; order_ok = 1; start = nondet_usize(); __CPROVER_assume(start <= {N});")
        for i in range(N):
            H.c(f"plan[{i}] = nondet_uchar(); __CPROVER_assume(plan[{i}] < 5);")

        def transact(tr_, args, dest):
            txid = tr_.as_scalar(args[0]).expr
            n = dest.node
            oki, erri = n.vindex("Ok"), n.vindex("Err")
            e = n.variants[erri][1].fields[0]
            tr_.emit(f"if ({txid} != start + calls) order_ok = 0; calls++; __CPROVER_assume({txid} < {N});")
            try:
                txr = tr_.as_ref(args[1])
            except TranslateError:
                txr = None
            if txr is not None and txr.idxs:
                # the TxEnv handed to transact is the block's element at that same global index
                tr_.emit(f"if (({txr.idxs[-1]}) != {txid}) order_ok = 0;")
                tr_.emit("txref_checked = 1;")
            tr_.emit(f"if (plan[{txid}] == 0) {{ {tr_.lv(Loc(n.discr, dest.idxs))} = {oki}; {tr_.lv(Loc(n.variants[oki][1].fields[0].fields[0], dest.idxs))} = 100 + {txid}; }}")
            tr_.emit(f"else {{ {tr_.lv(Loc(n.discr, dest.idxs))} = {erri};")
            tr_.emit(f"  if (plan[{txid}] == 1) {{ {tr_.lv(Loc(e.discr, dest.idxs))} = {e.vindex('Transaction')}; {tr_.lv(Loc(e.variants[e.vindex('Transaction')][1].fields[0].fields[0], dest.idxs))} = 50 + {txid}; }}")
            tr_.emit(f"  else if (plan[{txid}] == 2) {{ {tr_.lv(Loc(e.discr, dest.idxs))} = {e.vindex('Database')}; {tr_.lv(Loc(e.variants[e.vindex('Database')][1].fields[0], dest.idxs))} = 70 + {txid}; }}")
            tr_.emit(f"  else if (plan[{txid}] == 3) {{ {tr_.lv(Loc(e.discr, dest.idxs))} = {e.vindex('Custom')}; }}")
            tr_.emit(f"  else {{ {tr_.lv(Loc(e.discr, dest.idxs))} = {e.vindex('Header')}; }}")
            tr_.emit("}")
        out = H.local("out", "SequentialReplayOutput<DBError>")
        from translate import VPyClosure
        H.call("Scheduler::execute_sequential_suffix", [H.ref(S), H.val("start"), VPyClosure(transact)], out)
        ol = H.lv(out, "outcomes.len")
        oe = H.nav(out, "outcomes.e")
        ed = H.lv(out, "error.d")
        some, none = H.variant(out, "error", "Some"), H.variant(out, "error", "None")
        ee = H.nav(out, "error.Some.0")
        H.assert_("order_ok", "transact is called with consecutive global transaction ids from the start boundary, each with the block's transaction at that index")
        H.cover("txref_checked", "the transaction reference handed to transact was resolved to a block index")
        # first fatal index
        H.cvar("ff", "usize", shared=False)
        H.c(f"ff = {N};")
        for i in reversed(range(N)):
            H.c(f"if ({i} >= start && plan[{i}] >= 2) ff = {i};")
        H.assert_(f"{ol} == ff - start", "outcomes are exactly the transactions before the first fatal error (whole suffix if none)")
        H.assert_(f"({ed} == {some}) == (ff < {N})", "an error is reported iff some transaction fails fatally")
        H.assert_(f"!({ed} == {some}) || ({H.lv(ee, 'txid')} == ff)", "the error names the failing transaction")
        H.assert_(f"calls == (ff < {N} ? ff - start + 1 : {N} - start)", "no transaction after the failing one is executed; every earlier one exactly once")
        for i in range(N):
            for j in range(N - i):          # outcome j is tx start+j ; enumerate start = i
                pass
        for j in range(N):
            t = f"(start + {j})"
            tcl = f"(start + {j} < {N} ? start + {j} : 0)"
            H.assert_(f"!({j} < {ol}) || (plan[{tcl}] == 0 ? ({H.lv(oe, 'd', [j])} == {H.variant(oe, '', 'Executed')} && {H.lv(oe, 'Executed.0.id', [j])} == 100 + {t}) : "
                      f"(plan[{tcl}] == 1 && {H.lv(oe, 'd', [j])} == {H.variant(oe, '', 'Skipped')} && {H.lv(oe, 'Skipped.0.code', [j])} == 50 + {t}))",
                      f"outcome {j}: executed result or Skipped carrying the oracle's InvalidTransaction unchanged")
        for i in range(N):
            H.assert_(f"!({ed} == {some} && ff == {i} && plan[{i}] == 2) || ({H.lv(ee, 'error.d')} == {H.variant(ee, 'error', 'Database')} && {H.lv(ee, 'error.Database.0')} == 70 + {i})",
                      f"database error of tx {i} returned unchanged")
        H.cover(f"{ed} == {some} && {ol} == 2", "fatal error after two outcomes")
        H.cover(f"{ol} == {N} && plan[1] == 1", "full block with a skipped transaction")
        return H
    return b


# ------------------------------------------------------------------------------------------------ h5
def exec_stub_err(tr, c):
    """executor.execute_incarnation -> ghost: the attempt reads the (abstract) state version once, somewhere during the
    attempt, and fails with a solver-chosen error class; it may or may not report estimate blockers."""
    d = c.dest()
    tr.emit("__CPROVER_atomic_begin(); start_commit = S_scheduler_ctx_committed_0_v; attempt_started = 1; __CPROVER_atomic_end();")
    tr.emit("__CPROVER_atomic_begin(); seen_version = x_version; __CPROVER_atomic_end();")
    res = d.node.f("result")
    acc = d.node.f("accesses")
    erri = res.vindex("Err")
    e = res.variants[erri][1].fields[0]
    tr.emit(f"{tr.lv(Loc(res.discr, d.idxs))} = {erri};")
    tr.emit(f"{tr.lv(Loc(e.discr, d.idxs))} = err_invalid ? {e.vindex('Transaction')} : {e.vindex('Custom')};")
    tr.emit(f"{tr.lv(Loc(e.variants[e.vindex('Transaction')][1].fields[0].fields[0], d.idxs))} = 9;")
    for nm in ("read_set", "write_set", "blocking_txs"):
        n = acc.f(nm)
        p = n.f("present")
        for k in range(p.cap):
            tr.emit(f"{p.elem.name}{hz.sub(d.idxs + [str(k)])} = 0;")
    bt = acc.f("blocking_txs").f("present")
    tr.emit(f"if (blocked_on) {{ {bt.elem.name}{hz.sub(d.idxs + ['0'])} = 1; }}")
    tr.emit(f"{tr.lv(Loc(acc.f('blocked_by_beneficiary'), d.idxs))} = 0;")


def build_h5(N=2):
    def b(tr):
        H = hz.Harness(tr, "c04_h5")
        S = H.shared("S", "Scheduler<DB>")
        sc.freeze_sched(H, S, N)
        H.cvar("x_version", "unsigned char"); H.cvar("seen_version", "unsigned char"); H.cvar("attempt_started", "_Bool"); H.cvar("start_commit", "usize")
        H.param("err_invalid", "_Bool"); H.param("blocked_on", "_Bool")
        H.c("err_invalid = nondet_bool(); blocked_on = nondet_bool(); x_version = 0; seen_version = 99; attempt_started = 0; start_commit = 99;")
        sc.init_sched(H, S, N)
        sc.init_ctx(H, S, N)
        sc.init_tx_tables(H, S, N, L=2)
        t = 1
        stn = H.nav(S, 'tx_states.e.data.status')
        # tx 0 is still inside its first execution on another worker; tx 1 has just been claimed for its first incarnation
        H.c(f"{H.lv(S, 'tx_states.e.data.status.d', [0])} = {H.variant(stn, '', 'Executing')}; {H.lv(S, 'tx_states.e.data.incarnation', [0])} = 1;")
        H.c(f"{H.lv(S, 'tx_states.e.data.status.d', [t])} = {H.variant(stn, '', 'Executing')}; {H.lv(S, 'tx_states.e.data.incarnation', [t])} = 1;")
        H.c(f"{H.lv(S, 'scheduler_ctx.finality')} = 0; {H.lv(S, 'scheduler_ctx.validation')} = 0; {H.lv(S, 'tx_dependency.index')} = 2;")
        H.c(f"{H.lv(S, 'tx_dependency.dependent_state.e.data.onboard', [0])} = 0; {H.lv(S, 'tx_dependency.dependent_state.e.data.onboard', [t])} = 0;")
        w = H.thread("worker"); H.enter(w)
        task = H.local("task", "Option<Task>")
        H.call("Scheduler::execute_task", [H.ref(S), hz.VUnit(), hz.VUnit(), VAgg([H.val(str(t)), H.val("1")])], task)
        cm = H.thread("pred_and_commit"); H.enter(cm)
        # the predecessor publishes its writes (MV memory), is validated and finalised, and only then committed
        H.c("__CPROVER_atomic_begin(); x_version = 1; __CPROVER_atomic_end();")
        H.c(f"__CPROVER_atomic_begin(); {H.lv(S, 'tx_states.e.data.status.d', [0])} = {H.variant(stn, '', 'Finality')}; __CPROVER_atomic_end();")
        H.call("SchedulerContext::publish_finality", [H.ref(S, "scheduler_ctx"), H.val("1")])
        H.call("SchedulerContext::publish_commit", [H.ref(S, "scheduler_ctx"), H.val("1")])
        H.call("TxDependency::commit", [H.ref(S, "tx_dependency"), H.val("0")])
        H.post()
        rv = H.nav(S, "abort_reason.val")
        ab, rs, rd = H.lv(S, "abort"), H.lv(S, "abort_reason.set"), H.lv(rv, "d")
        fatal = f"({ab} && {rs} && {rd} == {H.variant(rv, '', 'FatalEvmError')})"
        fb = f"({ab} && {rs} && {rd} == {H.variant(rv, '', 'FallbackSequential')})"
        H.assert_(f"!{fatal} || seen_version == 1",
                  "stale-error-at-head: a fatal EVM error is only reported for an attempt that read the state left by its committed predecessors")
        H.assert_(f"!{fatal} || start_commit == {t}",
                  "exact prefix: a fatal error for tx k is only raised by an attempt that began when the committed boundary was already k")
        # a stale *invalid-transaction* verdict at the head only requests sequential fallback, which re-validates the transaction
        # against committed state: harmless, hence not asserted.
        H.assert_(f"!{fatal} || ({H.lv(rv, 'FatalEvmError.0')} == {t} && !err_invalid && !blocked_on)", "the fatal abort names the failing transaction and is not raised for an invalid / blocked attempt")
        H.assert_(f"!{fb} || (err_invalid && !blocked_on)", "fallback is requested only for an unblocked invalid-transaction error")
        H.assert_(f"!{ab} || {rs}", "an abort always records its reason")
        # not aborted: the transaction must be re-offered (it waits behind its blocker or behind its own, now reached, commit boundary)
        ds = "tx_dependency.dependent_state.e.data"
        H.assert_(f"{ab} || blocked_on || ({H.lv(S, ds + '.onboard', [t])} && {H.lv(S, ds + '.dependency.d', [t])} == 0 && {H.lv(S, 'tx_dependency.index')} <= {t})",
                  "an erroring attempt that does not abort is claimable again once the committed prefix has reached it (no orphan)")
        H.assert_(f"{H.lv(S, 'tx_states.e.data.status.d', [t])} == {H.variant(H.nav(S, 'tx_states.e.data.status'), '', 'Conflict')}", "a failed attempt leaves the transaction in Conflict")
        H.cover(f"{fatal}", "fatal abort reachable")
        H.cover(f"{fb}", "fallback abort reachable")
        H.cover(f"!{ab} && !blocked_on", "parked behind the commit boundary and released")
        return H
    return b


def specs(tier):
    N = 3
    out = [
        Spec("h1_post_execute", build_h1(N), cfg=sc.cfg(N, stubs={"Scheduler::replay_uncommitted_suffix": replay_stub}), unwind=N + 2, timeout=1800,
             desc="post_execute for every abort reason and arbitrary per-transaction results; suffix replay is a ghost",
             bounds={"n": N}),
        Spec("h2_commit_loop", build_h2(N), cfg=sc.cfg(N, stubs={"OrderedCommitter::commit": commit_stub(N), "WaitSlot::wait_while": wait_env_stub(N)},
                                                          loops={"Scheduler::run_commit_loop": {3: (6, "assert"), 7: (N + 1, "assert")}}),
             unwind=7, timeout=2700,
             desc="real run_commit_loop + install_commit_loop_result; per-index commit outcome chosen by the solver; the wait is an "
                  "environment step (finality advances or a foreign abort)", bounds={"n": N, "environment_steps": 2}),
        Spec("h3_seq_suffix", build_h3(N), cfg=sc.cfg(N, loops={"Scheduler::execute_sequential_suffix": {"*": (N + 2, "assert")}}), unwind=N + 3, timeout=1800,
             desc="real execute_sequential_suffix with a solver-chosen transact oracle (ok / invalid / database / custom / header error)",
             bounds={"n": N}),
        Spec("h5_error_at_head", build_h5(2), cfg=sc.mv_cfg(2, L=2, stubs=dict(sc.bene_true_stubs(), **{
                 "<impl ParallelTransactionExecutor as ParallelTransactionExecutor>::execute_incarnation": exec_stub_err})),
             unwind=4, timeout=2700,
             desc="real execute_task (error branch) for tx 1 || predecessor publishes its write, then commit publication + "
                  "TxDependency::commit; the attempt reads the abstract state version at a solver-chosen moment",
             bounds={"n": 2, "threads": 2, "memory_model": "SC"}),
    ]
    import c11
    for s_ in c11.specs(tier):
        if s_.name == "h3_alloy_adapter":
            s_.name = "h6_precompile_fault_is_fatal"
            out.append(s_)
    return out
