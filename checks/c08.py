"""C08  In-block account deletion, creation and storage reset are seen correctly.

Real code (MIR -> C): incarnation_db.rs {<IncarnationDb as Database>::storage, finish_incarnation, publish_writes,
publish_value, publish_storage_reset}, account.rs {FinalizedAccount::from}.  revm-state accessors (is_touched, is_created,
...) are one-line restatements (mir2c/revm_models.py); the backing database is a ghost array.

  h2_storage_read : for ANY multi-version-memory content below the reader (arbitrary reset markers / slot versions /
                    estimate flags / incarnations for 2 addresses x 2 slots), storage(a, s) returns the slot version if
                    its writer is at or after the newest reset marker, else 0 if a marker exists, else the backing value;
                    BOTH locations enter the read set with exactly the versions seen; estimate writers block; the backing
                    store is consulted only when neither exists.
  h3_publish      : finish_incarnation on ANY journal state of up to 2 accounts x 2 slots: a deleted account publishes
                    Basic(None) + a reset marker; a created one a reset marker + its account + changed slots; an updated
                    one only what changed; untouched accounts publish nothing; the write set names exactly the published
                    locations; entries carry (txid, incarnation, estimate = blocked).
  h4_roundtrip    : publish by tx i, then storage() by tx i+1 on every slot: zero after deletion/creation unless written
                    by the creating transaction itself, untouched storage where nothing was reset.
"""
from run import Spec
import harness as hz
from translate import Loc, VAgg, VRef, VScalar, VLoc, VUnit, TranslateError
import idb_common as ic
from idb_common import A, SL, KL

N = 3


def make_idb(H, tr, J, name="idb"):
    """an IncarnationDb at the start of incarnation (J, 1) over fresh ghost environment nodes"""
    bene = H.local(name + "_bene", "Beneficiary")
    back = H.local(name + "_back", "DB")
    mv = H.local(name + "_mv", "MVMemory") if not hasattr(H, "_mv") else H._mv
    H._mv = mv
    idb = H.local(name, "IncarnationDb<DB>")
    tr.store(Loc(H.nav(idb, "beneficiary"), []), VRef(bene, []))
    tr.store(Loc(H.nav(idb, "backing_db"), []), VRef(back, []))
    tr.store(Loc(H.nav(idb, "mv_memory"), []), VRef(mv, []))
    H.c(f"{H.lv(idb, 'version.txid')} = {J}; {H.lv(idb, 'version.incarnation')} = nondet_usize(); __CPROVER_assume({H.lv(idb, 'version.incarnation')} >= 1 && {H.lv(idb, 'version.incarnation')} <= 3);")
    H.c(f"{H.lv(idb, 'blocked_by_beneficiary')} = 0;")
    for k in range(KL):
        H.c(f"{H.lv(idb, 'read_set.present.e', [k])} = 0;")
    for a in range(A):
        H.c(f"{H.lv(idb, 'account_snapshots.present.e', [a])} = 0;")
    for t in range(H.nav(idb, "blocking_txs.present").cap):
        H.c(f"{H.lv(idb, 'blocking_txs.present.e', [t])} = 0;")
    return idb, mv


def check_read_version(H, idb, key, has, tx, mvx, what):
    rs = H.nav(idb, "read_set.vals.e")
    kd = H.lv(rs, "d", [key])
    H.assert_(f"{H.lv(idb, 'read_set.present.e', [key])}", f"{what} location is in the read set")
    H.assert_(f"{has} ? ({kd} == {H.variant(rs, '', 'MvMemory')} && {H.lv(rs, 'MvMemory.0.txid', [key])} == {tx} && "
              f"{H.lv(rs, 'MvMemory.0.incarnation', [key])} == {mvx.inc(key, tx)}) : ({kd} == {H.variant(rs, '', 'Storage')})",
              f"{what} location is recorded with exactly the version that was read (writer and incarnation, or backing store)")


def build_h2(J=2):
    def b(tr):
        H = hz.Harness(tr, "c08_h2")
        ic.declare_db(H)
        idb, mv = make_idb(H, tr, J)
        mvx = ic.MV(H, mv, N)
        mvx.havoc(J)
        res = H.local("res", "Result<U256, DBError>")
        a, s = 0, 0
        kr, ks = A + a, 3 * A + a * SL + s
        mvx.latest_below(kr, J, "r")
        mvx.latest_below(ks, J, "w")
        H.call("<IncarnationDb as Database>::storage", [H.ref(idb), H.val(str(a), "unsigned char"), H.val(str(s), ic.WIDE)], res)
        H.cvar("expect", ic.WIDE, shared=False)
        H.c(f"expect = (w_has && (!r_has || w_tx >= r_tx)) ? {mvx.slot_value(ks, 'w_tx')} : (r_has ? 0 : db_slot[{a}][{s}]);")
        H.assert_(f"{H.lv(res, 'd')} == {H.variant(res, '', 'Ok')} && {H.lv(res, 'Ok.0')} == expect",
                  "storage(): slot version at/after the newest reset marker, else zero behind a marker, else the backing value")
        H.assert_(f"db_storage_reads == ((w_has || r_has) ? 0 : 1)", "the backing store is consulted exactly when no version and no reset marker precede the reader")
        check_read_version(H, idb, kr, "r_has", "r_tx", mvx, "the storage-reset")
        check_read_version(H, idb, ks, "w_has", "w_tx", mvx, "the slot")
        for k in range(KL):
            if k not in (kr, ks):
                H.assert_(f"!{H.lv(idb, 'read_set.present.e', [k])}", f"no unrelated location (key {k}) enters the read set")
        bt = H.nav(idb, "blocking_txs.present")
        for t in range(bt.cap):
            want = f"((r_has && r_tx == {t} && {mvx.est(kr, t)}) || (w_has && w_tx == {t} && {mvx.est(ks, t)}))"
            H.assert_(f"{H.lv(idb, 'blocking_txs.present.e', [t])} == {want}", f"tx {t} blocks the reader iff it wrote an estimate that was read")
        H.cover("w_has && r_has && w_tx < r_tx", "a slot version masked by a newer reset marker")
        H.cover("w_has && r_has && w_tx >= r_tx", "a slot written by/after the resetting transaction")
        H.cover("!w_has && !r_has", "backing store read")
        return H
    return b


def havoc_changes(H, ch, accounts=1):
    """arbitrary finalized journal state: EvmState = HashMap<Address, Account> holding `accounts` entries"""
    acc = H.nav(ch, "vals.e")
    for a in range(A):
        H.c(f"{H.lv(ch, 'present.e', [a])} = {'nondet_bool()' if a < accounts else '0'}; {H.lv(ch, 'keys.e', [a])} = {a};")
        H.c(f"{H.lv(acc, 'status', [a])} = nondet_uchar();")
        for f in ("balance", "nonce", "code_hash"):
            H.c(f"{H.lv(acc, 'info.' + f, [a])} = nondet_usize();")
        H.c(f"{H.lv(acc, 'info.code.d', [a])} = nondet_bool(); {H.lv(acc, 'info.code.Some.0.id', [a])} = nondet_uchar();")
        for s in range(SL):
            H.c(f"{H.lv(acc, 'storage.present.e', [a, s])} = nondet_bool(); {H.lv(acc, 'storage.keys.e', [a, s])} = {s};")
            H.c(f"{H.lv(acc, 'storage.vals.e.original_value', [a, s])} = nondet_usize(); {H.lv(acc, 'storage.vals.e.present_value', [a, s])} = nondet_usize();")
    return acc


def classify(H, acc, a):
    """FinalizedAccount classification of account a (C expressions): unchanged, deleted, created, updated"""
    st = H.lv(acc, "status", [a])
    ch = H.lv(acc, "info.code_hash", [a])
    empty = f"(({ch} == 1 || {ch} == 0) && {H.lv(acc, 'info.balance', [a])} == 0 && {H.lv(acc, 'info.nonce', [a])} == 0)"
    touched, sd, cr = f"(({st} & 4) != 0)", f"(({st} & 2) != 0)", f"(({st} & 1) != 0)"
    unchanged = f"(!{touched})"
    deleted = f"({touched} && ({sd} || (!{cr} && {empty})))"
    created = f"({touched} && !{sd} && {cr})"
    updated = f"({touched} && !{sd} && !{cr} && !{empty})"
    return unchanged, deleted, created, updated


def build_h3(I=1):
    def b(tr):
        H = hz.Harness(tr, "c08_h3")
        ic.declare_db(H)
        idb, mv = make_idb(H, tr, I)
        mvx = ic.MV(H, mv, 2)
        mvx.havoc(0)                  # publication does not depend on lower entries: the memory starts empty
        ch = H.local("changes", "EvmState")
        acc = havoc_changes(H, ch)
        # the writer's own reads: solver-chosen snapshots (account_snapshots) and blockers
        sn = H.nav(idb, "account_snapshots")
        for a in range(A):
            H.c(f"{H.lv(sn, 'present.e', [a])} = nondet_bool(); {H.lv(sn, 'keys.e', [a])} = {a};")
            H.c(f"{H.lv(sn, 'vals.e.balance', [a])} = nondet_usize(); {H.lv(sn, 'vals.e.nonce', [a])} = nondet_usize(); "
                f"{H.lv(sn, 'vals.e.code_hash.d', [a])} = nondet_bool(); {H.lv(sn, 'vals.e.code_hash.Some.0', [a])} = nondet_usize();")
        H.cvar("blocked", "_Bool", shared=False)
        H.c(f"blocked = nondet_bool(); {H.lv(idb, 'blocking_txs.present.e', [0])} = blocked;")
        out = H.local("accesses", "IncarnationAccesses")
        inc = H.lv(idb, "version.incarnation")

        def published(k, kind):
            return f"({mvx.key_present(k)} && {mvx.present(k, I)} && {mvx.inc(k, I)} == {inc} && {mvx.est(k, I)} == blocked && {mvx.kind(k, I)} == {mvx.vkind(kind)})"
        checks = []          # evaluated after the call; the oracle's inputs are captured BEFORE it (finish_incarnation clears the snapshots)
        nv = [0]

        def cap(expr):
            nv[0] += 1
            v = f"orc{nv[0]}"
            H.cvar(v, "_Bool", shared=False)
            H.c(f"{v} = {expr};")
            return v
        for a in range(A):
            un, de, cr, up = classify(H, acc, a)
            inmap = H.lv(ch, "present.e", [a])
            kb, kr, kc = a, A + a, 2 * A + a
            has_code = f"({H.lv(acc, 'info.code_hash', [a])} != 1)"
            code_some = f"({H.lv(acc, 'info.code.d', [a])} == 1)"
            snap = H.lv(sn, "present.e", [a])
            snap_ch_eq = f"({H.lv(sn, 'vals.e.code_hash.d', [a])} == 1 && {H.lv(sn, 'vals.e.code_hash.Some.0', [a])} == {H.lv(acc, 'info.code_hash', [a])})"
            code_changed = f"({has_code} && {code_some} && (!{snap} || !{snap_ch_eq}))"
            basic_changed = f"({code_changed} || !{snap} || {H.lv(sn, 'vals.e.nonce', [a])} != {H.lv(acc, 'info.nonce', [a])} || {H.lv(sn, 'vals.e.balance', [a])} != {H.lv(acc, 'info.balance', [a])})"
            live = f"({cr} || {up})"
            want_basic = cap(f"({inmap} && (({de}) || ({live} && {basic_changed})))")
            is_del = cap(f"({inmap} && {de})")
            live_basic = cap(f"({inmap} && {live} && {basic_changed})")
            want_reset = cap(f"({inmap} && ({de} || {cr}))")
            want_code = cap(f"({inmap} && {live} && {code_changed})")
            checks.append((f"{want_basic} == ({mvx.key_present(kb)} && {mvx.present(kb, I)})", f"account {a}: Basic is published iff deleted, or created/updated with a changed nonce/balance/code"))
            checks.append((f"!{want_basic} || {published(kb, 'Basic')}", f"account {a}: Basic entry carries (txid, incarnation, estimate)"))
            checks.append((f"!{is_del} || !{mvx.basic_some(kb, I)}", f"account {a}: a deleted account is published as absent"))
            checks.append((f"!{live_basic} || ({mvx.basic_some(kb, I)} && {mvx.basic_f(kb, I, 'nonce')} == {H.lv(acc, 'info.nonce', [a])} && "
                           f"{mvx.basic_f(kb, I, 'balance')} == {H.lv(acc, 'info.balance', [a])} && {mvx.basic_f(kb, I, 'code_hash')} == {H.lv(acc, 'info.code_hash', [a])} && "
                           f"{H.lv(mvx.data, 'Basic.0.Some.0.code.d', [kb, I])} == 0)", f"account {a}: published account value = post-state nonce/balance/code hash, code stripped"))
            checks.append((f"{want_reset} == ({mvx.key_present(kr)} && {mvx.present(kr, I)})", f"account {a}: a storage-reset marker is published iff the account was deleted or created"))
            checks.append((f"!{want_reset} || {published(kr, 'StorageReset')}", f"account {a}: reset marker entry fields"))
            checks.append((f"{want_code} == ({mvx.key_present(kc)} && {mvx.present(kc, I)})", f"account {a}: Code is published iff the post-state has code that differs from what was read"))
            checks.append((f"!{want_code} || ({published(kc, 'Code')} && {mvx.code_id(kc, I)} == {H.lv(acc, 'info.code.Some.0.id', [a])})", f"account {a}: the published code is the post-state code"))
            for s_ in range(SL):
                ks = 3 * A + a * SL + s_
                changed = f"({H.lv(acc, 'storage.present.e', [a, s_])} && {H.lv(acc, 'storage.vals.e.original_value', [a, s_])} != {H.lv(acc, 'storage.vals.e.present_value', [a, s_])})"
                want_slot = cap(f"({inmap} && {live} && {changed})")
                checks.append((f"{want_slot} == ({mvx.key_present(ks)} && {mvx.present(ks, I)})", f"account {a} slot {s_}: published iff the account lives on and the slot changed"))
                checks.append((f"!{want_slot} || ({published(ks, 'Storage')} && {mvx.slot_value(ks, I)} == {H.lv(acc, 'storage.vals.e.present_value', [a, s_])})", f"account {a} slot {s_}: published value = present value"))
        H.call("IncarnationDb::finish_incarnation", [H.ref(idb), H.ref(ch)], out)
        for cnd, msg in checks:
            H.assert_(cnd, msg)
        ws = H.nav(out, "write_set.present")
        for k in range(KL):
            H.assert_(f"{H.lv(out, 'write_set.present.e', [k])} == ({mvx.key_present(k)} && {mvx.present(k, I)})", f"write set contains key {k} iff an entry was published there")
        H.assert_(f"{H.lv(out, 'blocking_txs.present.e', [0])} == blocked", "blockers are handed to the scheduler")
        un0, de0, cr0, up0 = classify(H, acc, 0)
        H.cover(f"{H.lv(ch, 'present.e', [0])} && {de0}", "a deleted account")
        H.cover(f"{H.lv(ch, 'present.e', [0])} && {cr0}", "a created account")
        H.cover(f"{H.lv(ch, 'present.e', [0])} && {up0} && blocked", "an updated account of a blocked (estimate) incarnation")
        return H
    return b


def build_h4(I=1):
    def b(tr):
        H = hz.Harness(tr, "c08_h4")
        ic.declare_db(H)
        idb, mv = make_idb(H, tr, I, name="writer")
        mvx = ic.MV(H, mv, 2)
        mvx.havoc(I)
        ch = H.local("changes", "EvmState")
        acc = havoc_changes(H, ch)
        sn = H.nav(idb, "account_snapshots")
        for a in range(A):
            H.c(f"{H.lv(sn, 'present.e', [a])} = nondet_bool(); {H.lv(sn, 'keys.e', [a])} = {a};")
            H.c(f"{H.lv(sn, 'vals.e.balance', [a])} = nondet_usize(); {H.lv(sn, 'vals.e.nonce', [a])} = nondet_usize(); "
                f"{H.lv(sn, 'vals.e.code_hash.d', [a])} = nondet_bool(); {H.lv(sn, 'vals.e.code_hash.Some.0', [a])} = nondet_usize();")
        # remember what the lower transactions / backing store say about (0, s) before the write
        for s in range(SL):
            mvx.latest_below(A + 0, I, f"r0_{s}")
            mvx.latest_below(3 * A + s, I, f"w0_{s}")
            H.cvar(f"before_{s}", ic.WIDE, shared=False)
            H.c(f"before_{s} = (w0_{s}_has && (!r0_{s}_has || w0_{s}_tx >= r0_{s}_tx)) ? {mvx.slot_value(3 * A + s, 'w0_%d_tx' % s)} : (r0_{s}_has ? 0 : db_slot[0][{s}]);")
        out = H.local("accesses", "IncarnationAccesses")
        H.call("IncarnationDb::finish_incarnation", [H.ref(idb), H.ref(ch)], out)
        rd, _ = make_idb(H, tr, I + 1, name="reader")
        un, de, cr, up = classify(H, acc, 0)
        inmap = H.lv(ch, "present.e", [0])
        for s in range(SL):
            res = H.local(f"res{s}", "Result<U256, DBError>")
            H.call("<IncarnationDb as Database>::storage", [H.ref(rd), H.val("0", "unsigned char"), H.val(str(s), ic.WIDE)], res)
            changed = f"({H.lv(acc, 'storage.present.e', [0, s])} && {H.lv(acc, 'storage.vals.e.original_value', [0, s])} != {H.lv(acc, 'storage.vals.e.present_value', [0, s])})"
            pv = H.lv(acc, "storage.vals.e.present_value", [0, s])
            v = H.lv(res, "Ok.0")
            H.assert_(f"!({inmap} && {de}) || {v} == 0", f"slot {s}: zero after the account was deleted in the preceding transaction")
            H.assert_(f"!({inmap} && {cr}) || {v} == ({changed} ? {pv} : 0)", f"slot {s}: after (re-)creation only storage written by the creating transaction itself is visible")
            H.assert_(f"!({inmap} && {up}) || {v} == ({changed} ? {pv} : before_{s})", f"slot {s}: an update without reset leaves untouched storage as it was")
            H.assert_(f"({inmap} && !{un}) || {v} == before_{s}", f"slot {s}: an untouched / absent account changes nothing")
        H.cover(f"{inmap} && {cr} && w0_0_has", "re-creation over an older slot version")
        H.cover(f"{inmap} && {de}", "deletion")
        return H
    return b


def specs(tier):
    out = [
        Spec("h2_storage_read", build_h2(2), cfg=ic.cfg(N), unwind=N + 2, timeout=2700,
             desc="real IncarnationDb::storage over an arbitrary multi-version memory below the reader (2 addresses x 2 slots, 2 lower txs)",
             bounds={"n": N, "addresses": A, "slots": SL}),
        Spec("h3_publish", build_h3(1), cfg=ic.cfg(2), unwind=max(A, SL) + 3, timeout=2700,
             desc="real finish_incarnation/publish_writes/FinalizedAccount::from over an arbitrary journal state (2 accounts x 2 slots, all status flag bytes)",
             bounds={"n": N, "addresses": A, "slots": SL}),
        Spec("h4_roundtrip", build_h4(1), cfg=ic.cfg(2), unwind=max(A, SL) + 3, timeout=2700,
             desc="publish by tx 1 then storage() by tx 2 on every slot of the account", bounds={"n": N, "addresses": A, "slots": SL}),
    ]
    return out
