#!/usr/bin/env python3
"""Check driver:  run.py <PROPERTY-ID> [--tier quick|thorough] [--only NAME] [--keep]

Regenerates the MIR dump of /repo's current working tree (content-addressed cache), builds every harness
of the property (checks/<id>.py), translates the real functions to C (mir2c), lets CBMC decide each harness
(in parallel), writes /verif/evidence/<ID>.json and prints VIOLATION / KNOWN-FINDING lines.

exit 0: every harness decided, no violation (apart from listed known findings)
exit 1: a violation (with `VIOLATION property=<id> replay=<path>` on stdout)
exit 2: inconclusive (translation failed, bound exceeded, solver limit) -- never reported as a pass
"""
import argparse
import concurrent.futures as cf
import fcntl
import hashlib
import importlib
import json
import os
import shutil
import subprocess
import sys
import time
import traceback

VERIF = os.path.dirname(os.path.dirname(os.path.abspath(__file__)))
sys.path.insert(0, os.path.join(VERIF, "mir2c"))
sys.path.insert(0, os.path.join(VERIF, "checks"))
REPO = os.environ.get("VERIF_REPO", "/repo")
CACHE = os.path.join(VERIF, ".cache")
WORK = os.path.join(VERIF, ".work")

import srcdefs          # noqa: E402
import translate        # noqa: E402
import harness as hz    # noqa: E402
from translate import TranslateError  # noqa: E402


def sh(cmd, **kw):
    return subprocess.run(cmd, shell=True, capture_output=True, text=True, **kw)


def tree_hash(root: str) -> str:
    h = hashlib.sha256()
    paths = []
    for dp, dn, fns in os.walk(os.path.join(root, "src")):
        for fn in fns:
            paths.append(os.path.join(dp, fn))
    for extra in ("Cargo.toml", "Cargo.lock", "rust-toolchain.toml"):
        p = os.path.join(root, extra)
        if os.path.exists(p):
            paths.append(p)
    for p in sorted(paths):
        h.update(os.path.relpath(p, root).encode())
        with open(p, "rb") as f:
            h.update(f.read())
    return h.hexdigest()[:20]


def prepare_mir(log=print):
    """returns (mir_text, src_dir, hash).  MIR is dumped with the verification guard OFF (production code)."""
    os.makedirs(CACHE, exist_ok=True)
    os.makedirs(os.path.join(CACHE, "mir"), exist_ok=True)
    hsh = tree_hash(REPO)
    mirp = os.path.join(CACHE, "mir", hsh + ".mir")
    srcp = os.path.join(CACHE, "mir", hsh + ".src")
    lock = open(os.path.join(CACHE, "mir.lock"), "w")
    fcntl.flock(lock, fcntl.LOCK_EX)
    try:
        if not (os.path.exists(mirp) and os.path.isdir(srcp)):
            t0 = time.time()
            scratch = os.path.join(CACHE, "mir-src")
            os.makedirs(scratch, exist_ok=True)
            r = sh(f"rsync -a --delete --exclude target --exclude .git {REPO}/ {scratch}/")
            if r.returncode != 0:
                raise RuntimeError("rsync failed: " + r.stderr)
            env = dict(os.environ, CARGO_NET_OFFLINE="true", CARGO_TARGET_DIR=os.path.join(CACHE, "target-mir"),
                       RUSTFLAGS="")
            r = subprocess.run(
                "cargo +nightly rustc --offline --lib -- -Zunpretty=mir -C debug-assertions=off -C overflow-checks=on",
                shell=True, cwd=scratch, env=env, capture_output=True, text=True)
            if r.returncode != 0 or "fn " not in r.stdout:
                raise RuntimeError("MIR dump failed (does /repo compile?):\n" + r.stderr[-3000:])
            tmp = mirp + f".tmp{os.getpid()}"
            with open(tmp, "w") as f:
                f.write(r.stdout)
            if os.path.isdir(srcp):
                shutil.rmtree(srcp)
            shutil.copytree(os.path.join(scratch, "src"), srcp)
            os.rename(tmp, mirp)
            log(f"[mir] dumped {len(r.stdout.splitlines())} lines in {time.time() - t0:.1f}s -> {mirp}")
            # keep the cache small: drop dumps other than the 6 most recent
            ents = sorted((e for e in os.listdir(os.path.join(CACHE, "mir")) if e.endswith(".mir")),
                          key=lambda e: os.path.getmtime(os.path.join(CACHE, "mir", e)))
            for e in ents[:-6]:
                os.remove(os.path.join(CACHE, "mir", e))
                shutil.rmtree(os.path.join(CACHE, "mir", e[:-4] + ".src"), ignore_errors=True)
    finally:
        fcntl.flock(lock, fcntl.LOCK_UN)
    return open(mirp).read(), srcp, hsh


def prepare_extra_mir(pkg: str) -> str:
    """MIR of a dependency crate (e.g. revm-database), dumped from the same scratch copy / lock file as the main dump"""
    os.makedirs(os.path.join(CACHE, "mir"), exist_ok=True)
    lockh = hashlib.sha256(open(os.path.join(REPO, "Cargo.lock"), "rb").read()).hexdigest()[:16]
    path = os.path.join(CACHE, "mir", f"pkg-{pkg}-{lockh}.mir")
    lock = open(os.path.join(CACHE, "mir.lock"), "w")
    fcntl.flock(lock, fcntl.LOCK_EX)
    try:
        if not os.path.exists(path):
            scratch = os.path.join(CACHE, "mir-src")
            env = dict(os.environ, CARGO_NET_OFFLINE="true", CARGO_TARGET_DIR=os.path.join(CACHE, "target-mir"), RUSTFLAGS="")
            r = subprocess.run(f"cargo +nightly rustc --offline -p {pkg} --lib -- -Zunpretty=mir -C debug-assertions=off -C overflow-checks=on",
                               shell=True, cwd=scratch, env=env, capture_output=True, text=True)
            if r.returncode != 0 or "fn " not in r.stdout:
                raise RuntimeError(f"MIR dump of {pkg} failed:\n" + r.stderr[-2000:])
            with open(path + ".tmp", "w") as f:
                f.write(r.stdout)
            os.rename(path + ".tmp", path)
    finally:
        fcntl.flock(lock, fcntl.LOCK_UN)
    return path


class Spec:
    """one harness: build(tr) -> Harness ; decided by one CBMC run (plus one --cover run for vacuity)"""

    def __init__(self, name, build, cfg=None, unwind=4, timeout=600, desc="", bounds=None, covers=True, extra=None,
                 mem_gb=12, expect_known=None):
        self.name = name
        self.build = build
        self.cfg = cfg or {}
        self.unwind = unwind
        self.timeout = timeout
        self.desc = desc
        self.bounds = bounds or {}
        self.covers = covers
        self.extra = extra or []
        self.mem_gb = mem_gb
        self.expect_known = expect_known


def run_spec(args):
    pid, spec_name, tier, mir_path, src_path, workdir = args
    mod = importlib.import_module(pid.lower())
    specs = {s.name: s for s in mod.specs(tier)}
    spec = specs[spec_name]
    out = {"name": spec.name, "desc": spec.desc, "bounds": dict(spec.bounds, unwind=spec.unwind), "status": "error"}
    t0 = time.time()
    try:
        src = srcdefs.Sources(src_path, extra_roots=spec.cfg.get("extra_src", []))
        cfg = dict(noops=[r"metrics", r"tracing", r"ExecuteMetricsCollector", r"Histogram"], cap=3)
        cfg.update(spec.cfg)
        if cfg.get("extra_mir_pkgs"):
            cfg["extra_mir"] = [open(prepare_extra_mir(p_)).read() for p_ in cfg["extra_mir_pkgs"]]
        tr = translate.Translator(open(mir_path).read(), src, cfg)
        H = spec.build(tr)
        ctext = H.render()
    except TranslateError as e:
        out["status"] = "inconclusive"
        out["reason"] = "translation: " + str(e)
        if os.environ.get("VERIF_DEBUG"):
            traceback.print_exc()
        out["wall_s"] = time.time() - t0
        return out
    except Exception:
        out["status"] = "error"
        out["reason"] = traceback.format_exc()[-2000:]
        out["wall_s"] = time.time() - t0
        return out
    cfile = os.path.join(workdir, f"{pid}_{spec.name}.c")
    with open(cfile, "w") as f:
        f.write(ctext)
    out["c_lines"] = ctext.count("\n")
    out["t_translate_s"] = round(time.time() - t0, 2)
    out["functions"] = {k: v for k, v in tr.encoded.items()}
    out["models"] = sorted(k for k in tr.models_used if not k.startswith("noop:"))
    out["noops"] = sorted(k[5:] for k in tr.models_used if k.startswith("noop:"))
    res = hz.run_cbmc(cfile, spec.unwind, spec.timeout, spec.extra, spec.mem_gb)
    out["t_solver_s"] = round(res.wall, 2)
    out["props"] = res.props
    out["status"] = res.status
    out["sat_vars"] = res.variables
    out["sat_clauses"] = res.clauses
    if res.status == "violation":
        out["failed"] = [{"property": f["property"], "description": f["description"],
                          "trace": hz.trace_summary(f.get("trace", []))} for f in res.failed]
    if res.inconclusive:
        out["inconclusive"] = res.inconclusive[:10]
    if res.status == "error":
        out["reason"] = res.raw_tail
    if spec.covers and res.status == "ok" and H.covers:
        cres = hz.run_cbmc(cfile, spec.unwind, spec.timeout, spec.extra, spec.mem_gb, cover=True)
        out["t_cover_s"] = round(cres.wall, 2)
        out["covers_total"] = cres.covers_total
        out["covers_hit"] = cres.covers_hit
        if cres.status != "ok" or cres.covers_hit < cres.covers_total or cres.covers_total == 0:
            out["status"] = "inconclusive"
            out.setdefault("inconclusive", []).append(
                f"vacuity: {cres.covers_hit}/{cres.covers_total} cover goals reached ({cres.status}) {cres.inconclusive[:2]}")
    out["wall_s"] = round(time.time() - t0, 2)
    return out


def load_known():
    known, fixed = [], []
    p = os.path.join(VERIF, "known_findings.txt")
    if os.path.exists(p):
        for ln in open(p):
            ln = ln.strip()
            if not ln or ln.startswith("#"):
                continue
            if ln.startswith("fixed:"):
                fixed.append(ln)
            elif ln.startswith("known:"):
                # known: property=<id> key=<harness>/<assertion text> <what fails>
                parts = dict(x.split("=", 1) for x in ln[6:].split() if "=" in x)
                known.append({"property": parts.get("property"), "key": parts.get("key"), "text": ln[6:].strip()})
    return known, fixed


def main():
    ap = argparse.ArgumentParser()
    ap.add_argument("pid")
    ap.add_argument("--tier", default=os.environ.get("VERIF_TIER", "quick"))
    ap.add_argument("--only", default=None)
    ap.add_argument("--keep", action="store_true")
    ap.add_argument("--jobs", type=int, default=int(os.environ.get("VERIF_JOBS", "14")))
    a = ap.parse_args()
    pid = a.pid.upper()
    tier = a.tier if a.tier in ("quick", "thorough", "experimental") else "quick"
    seed = int(os.environ.get("VERIF_SEED", "0") or 0)
    t0 = time.time()
    try:
        mir, srcp, hsh = prepare_mir()
    except Exception as e:
        print(f"INCONCLUSIVE property={pid} {e}")
        write_evidence(pid, tier, seed, [], time.time() - t0, note=f"MIR dump failed: {e}")
        sys.exit(2)
    mir_path = os.path.join(CACHE, "mir", hsh + ".mir")
    mod = importlib.import_module(pid.lower())
    specs = mod.specs(tier)
    if a.only:
        specs = [s for s in specs if a.only in s.name]
    workdir = os.path.join(WORK, f"{pid}-{os.getpid()}")
    os.makedirs(workdir, exist_ok=True)
    results = []
    with cf.ProcessPoolExecutor(max_workers=min(a.jobs, max(1, len(specs)))) as ex:
        futs = {ex.submit(run_spec, (pid, s.name, tier, mir_path, srcp, workdir)): s for s in specs}
        for fu in cf.as_completed(futs):
            s = futs[fu]
            try:
                r = fu.result()
            except Exception as e:
                r = {"name": s.name, "status": "error", "reason": repr(e)}
            results.append(r)
            print(f"[{pid}] {r['name']}: {r['status']} props={r.get('props', 0)} "
                  f"covers={r.get('covers_hit', '-')}/{r.get('covers_total', '-')} wall={r.get('wall_s', 0)}s "
                  f"{(r.get('reason') or '')[:300]} {'; '.join(r.get('inconclusive', [])[:2])[:300]}", flush=True)
    if hasattr(mod, "extra_results") and not a.only:
        for r in mod.extra_results(tier):
            results.append(r)
            print(f"[{pid}] {r['name']}: {r['status']} props={r.get('props', 0)} wall={r.get('wall_s', 0)}s {(r.get('reason') or '')[:300]}", flush=True)
    results.sort(key=lambda r: r["name"])
    known, _fixed = load_known()
    violations, known_hits = [], []
    os.makedirs(os.path.join(VERIF, "replays", pid), exist_ok=True)
    for r in results:
        if r["status"] != "violation":
            continue
        for f in r.get("failed", []):
            key = f"{r['name']}/{f['description']}"
            k = next((k for k in known if k["property"] == pid and k["key"] and k["key"] in key.replace(" ", "_")), None)
            if k:
                known_hits.append((k, key))
                continue
            rp = os.path.join(VERIF, "replays", pid, hashlib.sha256(key.encode()).hexdigest()[:12] + ".json")
            with open(rp, "w") as fh:
                json.dump({"property": pid, "harness": r["name"], "assertion": f["description"],
                           "bounds": r.get("bounds"), "trace": f.get("trace", []),
                           "c_file": f"{pid}_{r['name']}.c (regenerate with: checks/run.py {pid} --only {r['name']} --keep)"},
                          fh, indent=1)
            if (key, rp) not in violations:
                violations.append((key, rp))
    for k, key in known_hits:
        print(f"KNOWN-FINDING: property={pid} {k['text']}")
    for key, rp in violations:
        print(f"VIOLATION property={pid} replay={rp}   ({key})")
    bad = [r for r in results if r["status"] in ("inconclusive", "error")]
    wall = time.time() - t0
    if a.only:
        # a partial (development / seed-trial) run must not replace the evidence of the registered command
        print(f"[{pid}] partial run (--only {a.only}): evidence/{pid}.json left untouched")
    else:
        write_evidence(pid, tier, seed, results, wall, nviol=len(violations), mir_hash=hsh, known=[k for k, _ in known_hits])
    if not a.keep:
        shutil.rmtree(workdir, ignore_errors=True)
    if violations:
        sys.exit(1)
    if bad:
        for r in bad:
            print(f"INCONCLUSIVE property={pid} harness={r['name']}: {(r.get('reason') or '; '.join(r.get('inconclusive', [])))[:600]}")
        sys.exit(2)
    print(f"[{pid}] OK: {len(results)} harnesses, {sum(r.get('props', 0) for r in results)} solver obligations, {wall:.1f}s")
    sys.exit(0)


def write_evidence(pid, tier, seed, results, wall, nviol=0, mir_hash="", note="", known=()):
    fns = {}
    models = set()
    for r in results:
        fns.update(r.get("functions", {}))
        models.update(r.get("models", []))
    evaluations = sum(r.get("props", 0) + r.get("covers_hit", 0) for r in results)
    nontrivial = sum(1 for r in results if r.get("status") in ("ok", "violation") and r.get("props", 0) > 0 and
                     (r.get("covers_total", 0) == 0 or r.get("covers_hit", 0) == r.get("covers_total", 0)))
    samples = [{"harness": r["name"], "what": r.get("desc", ""), "bounds": r.get("bounds"), "status": r.get("status"),
                "solver_obligations": r.get("props", 0), "cover_goals": f"{r.get('covers_hit', 0)}/{r.get('covers_total', 0)}",
                "sat_variables": r.get("sat_vars"), "sat_clauses": r.get("sat_clauses"),
                "solver_s": r.get("t_solver_s"), "cover_s": r.get("t_cover_s"), "c_lines": r.get("c_lines"),
                "inconclusive": r.get("inconclusive"), "failed": [f["description"] for f in r.get("failed", [])] or None}
               for r in results]
    ev = {
        "property_id": pid, "tier": tier, "seed": seed, "level": "model_checking",
        "coverage": {
            "evaluations": max(evaluations, 0),
            "distinct_nontrivial": nontrivial,
            "rule": "evaluations = CBMC properties (harness assertions, Rust panic/overflow assertions, model-bound and "
                    "unwinding assertions) decided + cover goals reached; distinct_nontrivial = harness configurations "
                    "that were decided and whose vacuity witnesses (cover goals) were all reached. Each harness quantifies "
                    "over ALL values of its nondeterministic inputs and ALL thread interleavings within its bounds.",
            "samples": samples or [{"note": note or "no harness ran"}],
            "functions_encoded": fns,
            "model_library_used": sorted(models),
            "mir_tree_hash": mir_hash,
            "engine": "mir2c (MIR of /repo working tree -> pointer-free C) + CBMC 6.11 SAT",
            "solver_time_s": round(sum((r.get("t_solver_s") or 0) + (r.get("t_cover_s") or 0) for r in results), 1),
            "known_findings_seen": [k["text"] for k in known],
        },
        "assumptions": [
            "nightly-rustc MIR (debug-assertions off, overflow-checks on) is faithful to the production build of these functions",
            "model library contracts (mir2c/models.py MODEL_DOC): SC atomics, parking_lot locks as test-and-set, std parker one-token semantics, containers as bounded arrays with solver-chosen iteration order",
            "bounds listed per harness; anything beyond them is outside the claim",
        ],
        "wall_s": round(wall, 2),
        "violations": nviol,
    }
    if note:
        ev["coverage"]["note"] = note
    os.makedirs(os.path.join(VERIF, "evidence"), exist_ok=True)
    with open(os.path.join(VERIF, "evidence", pid + ".json"), "w") as f:
        json.dump(ev, f, indent=1)


if __name__ == "__main__":
    main()
