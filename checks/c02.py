"""C02  Commits are in order, exactly once, final, and equal the in-order effect  (finality / staleness part; the commit
loop itself -- contiguous, once, exact prefix -- is decided in C04/h2 and C03).

Real code (MIR -> C): scheduler.rs {next (validation claim), validate, execute_task, lock_finality_candidate,
mark_mv_estimate}, context.rs {rewind_validation_to, logical_timestamp, unconfirmed, next_validation_idx, executed, ...},
cursor.rs, tx_dependency.rs (add/remove/key_tx as called), the real multi-version memory (model of DashMap<loc, BTreeMap>).

Abstraction: ONE storage location X that every transaction reads and writes (the maximal-conflict block).  The executor is
a ghost that does what IncarnationDb does for X: read the latest entry below txid (recording its version, or its writer
as a blocker when it is an estimate) and publish its own entry with the current incarnation.

Safety asserted at the moment lock_finality_candidate hands out tx f:  f's recorded read version IS the latest
non-estimate entry below f in the multi-version memory (re-running validate's comparison now would succeed) -- i.e. no
speculative result computed from state a predecessor changed afterwards is ever finalised.

Method: one inductive step with concurrency inside (as C16).  Pre-state: any state satisfying INV; roles
  V  worker: real next() -> validation task -> real validate
  R  worker: real execute_task for an Executing first incarnation (ghost executor), all outcomes (ok / blocked / error)
  F  finality coordinator step: real lock_finality_candidate + the three loop-body statements
run concurrently in pairs; INV must hold again at quiescence.  INV's key clause (T):
  tx j Unconfirmed and NOT currently valid  =>  some lower tx is still inside its execution (it will rewind), or some
  i <= j has lower_timestamp[i] > unconfirmed_timestamp[j] and finality has not consumed i without carrying that bound.
"""
from run import Spec
import harness as hz
from translate import Loc, VAgg, VRef, VScalar, VLoc, VUnit, TranslateError
import sched_common as sc

ST = {"Initial": 0, "Executing": 1, "Executed": 2, "Validating": 3, "Unconfirmed": 4, "Conflict": 5, "Finality": 6}


class K:
    def __init__(self, H, S, N):
        self.H, self.S, self.N = H, S, N
        self.st = H.nav(S, "tx_states.e.data")
        self.trn = H.nav(S, "tx_results.e.data")
        self.mv = H.nav(S, "mv_memory.slots.e")

    # accessors ---------------------------------------------------------------------------------
    def status(self, i): return self.H.lv(self.st, "status.d", [i])
    def inc(self, i): return self.H.lv(self.st, "incarnation", [i])
    def has_res(self, i): return f"({self.H.lv(self.trn, 'd', [i])} == 1)"
    def res_ok(self, i): return f"({self.H.lv(self.trn, 'Some.0.execute_result.d', [i])} == 0)"
    def rs_present(self, i): return self.H.lv(self.trn, "Some.0.read_set.present.e", [i, 0])
    def rs_kind(self, i): return self.H.lv(self.trn, "Some.0.read_set.vals.e.d", [i, 0])
    def rs_txid(self, i): return self.H.lv(self.trn, "Some.0.read_set.vals.e.MvMemory.0.txid", [i, 0])
    def rs_inc(self, i): return self.H.lv(self.trn, "Some.0.read_set.vals.e.MvMemory.0.incarnation", [i, 0])
    def ws_present(self, i): return self.H.lv(self.trn, "Some.0.write_set.present.e", [i, 0])
    def mv_key(self): return self.H.lv(self.mv, "data.present", [0])
    def mv_p(self, a): return self.H.lv(self.mv, "data.val.present.e", [0, a])
    def mv_inc(self, a): return self.H.lv(self.mv, "data.val.vals.e.incarnation", [0, a])
    def mv_est(self, a): return self.H.lv(self.mv, "data.val.vals.e.estimate", [0, a])
    def lower(self, i): return self.H.lv(self.S, "scheduler_ctx.lower_timestamps.e", [i])
    def unconf(self, i): return self.H.lv(self.S, "scheduler_ctx.unconfirmed_timestamps.e", [i])
    def ctx(self, f): return self.H.lv(self.S, "scheduler_ctx." + f)

    def kind(self, name):
        return self.H.variant(self.H.nav(self.trn, "Some.0.read_set.vals.e"), "", name)

    def valid_now(self, j):
        """validate's comparison for tx j evaluated on the current MV memory (C expression)"""
        e = f"({self.rs_kind(j)} == {self.kind('Storage')})"            # no writer below j
        for a in range(j):                                             # ascending: the last match wins = latest writer
            here = f"({self.mv_key()} && {self.mv_p(a)})"
            ok_a = f"(!{self.mv_est(a)} && {self.rs_kind(j)} == {self.kind('MvMemory')} && {self.rs_txid(j)} == {a} && {self.rs_inc(j)} == {self.mv_inc(a)})"
            e = f"({here} ? {ok_a} : {e})"
        return f"(!{self.rs_present(j)} || {e})"

    # invariant -----------------------------------------------------------------------------------
    def inv(self, emit, FL, PW, clock_max=200):
        H, N = self.H, self.N
        fin, val, clock = self.ctx("finality"), self.ctx("validation"), self.ctx("logical_clock")
        emit(f"{fin} <= {N} && {val} <= {N} && {clock} >= 1 && {clock} < {clock_max} && {FL} < {clock}", "cursors and clock in range")
        emit(f"{self.ctx('execution_frontier.frontier')} <= {N}", "frontier in range")
        for i in range(N):
            emit(f"!{H.lv(self.S, 'tx_states.e.locked', [i])} && !{H.lv(self.S, 'tx_results.e.locked', [i])}", f"locks of {i} free")
            emit(f"{self.status(i)} <= 6 && {self.inc(i)} <= 3", f"status/incarnation of {i} in range")
            emit(f"{self.lower(i)} < {clock} && {self.unconf(i)} < {clock}", f"timestamps of {i} below the clock")
            emit(f"({i} < {fin}) == ({self.status(i)} == {ST['Finality']})", f"final prefix is exactly the Finality transactions ({i})")
            emit(f"!({i} < {fin}) || {FL} >= {self.lower(i)}", f"finality carries the rewind bound of finalised tx {i}")
            done = f"({self.status(i)} == {ST['Executed']} || {self.status(i)} == {ST['Validating']} || {self.status(i)} == {ST['Unconfirmed']} || {self.status(i)} == {ST['Finality']})"
            emit(f"!{done} || ({self.has_res(i)} && {self.res_ok(i)} && {self.ws_present(i)} && {self.rs_present(i)} && {self.inc(i)} >= 1 && "
                 f"{self.mv_key()} && {self.mv_p(i)} && {self.mv_inc(i)} == {self.inc(i)} && !{self.mv_est(i)})",
                 f"an executed tx {i} has its result and its published, non-estimate entry")
            emit(f"!{done} || {H.lv(self.S, 'scheduler_ctx.execution_frontier.executed.e', [i])}", f"executed flag of {i}")
            emit(f"!({i} < {self.ctx('execution_frontier.frontier')}) || {H.lv(self.S, 'scheduler_ctx.execution_frontier.executed.e', [i])}", f"frontier only passes executed transactions ({i})")
            emit(f"{self.mv_key()} || !{self.mv_p(i)}", f"an absent location has no entries ({i})")
            emit(f"!({self.status(i)} == {ST['Initial']}) || (!{self.has_res(i)} && {self.inc(i)} == 0 && !({self.mv_key()} && {self.mv_p(i)}))", f"Initial tx {i} has published nothing")
            emit(f"!({self.status(i)} == {ST['Executing']}) || (({self.inc(i)} == 1 && !{self.has_res(i)} && !({self.mv_key()} && {self.mv_p(i)})) || {PW}[{i}])",
                 f"an Executing tx {i} handled in this step is a first incarnation")
            emit(f"!({self.status(i)} == {ST['Conflict']}) || (!({self.mv_key()} && {self.mv_p(i)}) || {self.mv_est(i)})", f"a Conflict tx {i} left only estimate entries")
            emit(f"!({self.has_res(i)} && {self.rs_present(i)}) || ({self.rs_kind(i)} <= 2 && ({self.rs_kind(i)} != {self.kind('MvMemory')} || {self.rs_txid(i)} < {i}) && {self.rs_kind(i)} != {self.kind('Beneficiary')})",
                 f"read version of {i} names a predecessor")
            emit(f"!({self.status(i)} == {ST['Finality']}) || {self.valid_now(i)}", f"SAFETY a finalised tx {i} read the final versions of its predecessors")
            # (T)
            prot = []
            for a in range(i):
                prot.append(f"({self.status(a)} == {ST['Executing']})")
            for k in range(i + 1):
                prot.append(f"({self.lower(k)} > {self.unconf(i)} && ({k} >= {fin} || {FL} >= {self.lower(k)}))")
            emit(f"!({self.status(i)} == {ST['Unconfirmed']} && !{self.valid_now(i)}) || ({' || '.join(prot)})",
                 f"(T) a stale Unconfirmed tx {i} is fenced by a pending execution or by a newer rewind timestamp at or below it")

    def havoc(self, FL, PW):
        H, N, S = self.H, self.N, self.S
        for f in ("finality", "validation", "logical_clock", "execution_frontier.frontier", "committed", "validation_resets"):
            H.c(f"{self.ctx(f)} = nondet_usize();")
        H.c(f"{self.ctx('committed')} = 0; {FL} = nondet_usize();")
        H.c(f"{H.lv(self.mv, 'locked', [0])} = 0; {self.mv_key()} = nondet_bool();")
        rsn = H.nav(self.trn, "Some.0.read_set")
        for i in range(N):
            H.c(f"{H.lv(S, 'tx_states.e.locked', [i])} = 0; {self.status(i)} = nondet_uchar(); {self.inc(i)} = nondet_usize(); {H.lv(self.st, 'dependency.d', [i])} = 0;")
            H.c(f"{H.lv(S, 'tx_results.e.locked', [i])} = 0; {H.lv(self.trn, 'd', [i])} = nondet_bool(); {H.lv(self.trn, 'Some.0.execute_result.d', [i])} = nondet_bool();")
            H.c(f"{H.lv(self.trn, 'Some.0.execute_result.Ok.0.id', [i])} = nondet_uchar();")
            H.c(f"{self.rs_present(i)} = nondet_bool(); {self.rs_kind(i)} = nondet_uchar(); {self.rs_txid(i)} = nondet_usize(); {self.rs_inc(i)} = nondet_usize(); {self.ws_present(i)} = nondet_bool();")
            H.c(f"{H.lv(rsn, 'keys.e.id', [i, 0])} = 0; {H.lv(self.trn, 'Some.0.write_set.keys.e.id', [i, 0])} = 0;")
            H.c(f"{self.mv_p(i)} = nondet_bool(); {self.mv_inc(i)} = nondet_usize(); {self.mv_est(i)} = nondet_bool();")
            H.c(f"{self.lower(i)} = nondet_usize(); {self.unconf(i)} = nondet_usize(); {H.lv(S, 'scheduler_ctx.execution_frontier.executed.e', [i])} = nondet_bool();")
            H.c(f"{PW}[{i}] = 0;")
        self.inv(lambda c, m: H.assume(c), FL, PW)


_CLOCK_LV = ["0"]       # C lvalue of scheduler_ctx.logical_clock in the harness being built (set by build())


def exec_stub(N):
    def stub(tr, c):
        """executor.execute_incarnation(version, tx): the ghost IncarnationDb for location X"""
        d = c.dest()
        ver = c.args[1]
        vl = ver.loc if isinstance(ver, VLoc) else None
        txid = tr.lv(Loc(vl.node.f("txid"), vl.idxs))
        inc = tr.lv(Loc(vl.node.f("incarnation"), vl.idxs))
        res, acc = d.node.f("result"), d.node.f("accesses")
        rs, ws, bt = acc.f("read_set"), acc.f("write_set"), acc.f("blocking_txs")
        rv = rs.f("vals").elem
        g = lambda e: e  # noqa
        mvs = "S_mv_memory_s"
        tr.emit(f"__CPROVER_assume({txid} < {N});")
        for k in range(bt.f("present").cap):
            tr.emit(f"{bt.f('present').elem.name}{hz.sub(d.idxs + [str(k)])} = 0;")
        tr.emit(f"{rs.f('present').elem.name}{hz.sub(d.idxs + ['0'])} = 1; {rs.f('keys').elem.fields[0].name}{hz.sub(d.idxs + ['0'])} = 0;")
        tr.emit(f"{ws.f('present').elem.name}{hz.sub(d.idxs + ['0'])} = 0; {ws.f('keys').elem.fields[0].name}{hz.sub(d.idxs + ['0'])} = 0;")
        tr.emit(f"{tr.lv(Loc(acc.f('blocked_by_beneficiary'), d.idxs))} = 0;")
        kd = tr.lv(Loc(rv.discr, d.idxs + ["0"]))
        mvv = rv.variants[rv.vindex("MvMemory")][1].fields[0]
        # read: latest entry below txid, under the slot lock
        tr.emit("__CPROVER_atomic_begin();")
        tr.emit(f"__CPROVER_assume(!{mvs}_locked[0]);")
        tr.emit(f"{kd} = {rv.vindex('Storage')}; exec_blocked = 0;")
        for a in range(N):
            tr.emit(f"if ({a} < {txid} && {mvs}_present[0] && S_mv_memory_s_val_p[0][{a}]) {{ "
                    f"if (S_mv_memory_s_val_v_estimate[0][{a}]) {{ exec_blocked = 1; exec_blocker = {a}; }} else {{ exec_blocked = 0; }} "
                    f"{kd} = {rv.vindex('MvMemory')}; {tr.lv(Loc(mvv.f('txid'), d.idxs + ['0']))} = {a}; "
                    f"{tr.lv(Loc(mvv.f('incarnation'), d.idxs + ['0']))} = S_mv_memory_s_val_v_incarnation[0][{a}]; }}")
        tr.emit("__CPROVER_atomic_end();")
        tr.emit(f"if (exec_blocked) {{ {bt.f('present').elem.name}[exec_blocker] = 1; }}" if not d.idxs else "")
        oki, erri = res.vindex("Ok"), res.vindex("Err")
        e = res.variants[erri][1].fields[0]
        tr.emit(f"if (exec_fail && !exec_blocked) {{ {tr.lv(Loc(res.discr, d.idxs))} = {erri}; {tr.lv(Loc(e.discr, d.idxs))} = {e.vindex('Custom')}; "
                f"{rs.f('present').elem.name}{hz.sub(d.idxs + ['0'])} = 0; }} else {{")
        tr.emit(f"{tr.lv(Loc(res.discr, d.idxs))} = {oki}; {tr.lv(Loc(res.variants[oki][1].fields[0].fields[0], d.idxs))} = 7;")
        # publish the write (finish_incarnation): entry (X, txid) := {incarnation, estimate = blocked}
        tr.emit("__CPROVER_atomic_begin();")
        tr.emit(f"__CPROVER_assume(!{mvs}_locked[0]);")
        tr.emit(f"if (!{mvs}_present[0]) {{ " + " ".join(f"S_mv_memory_s_val_p[0][{a}] = 0;" for a in range(N)) + " }")
        tr.emit(f"{mvs}_present[0] = 1; S_mv_memory_s_val_p[0][{txid}] = 1; S_mv_memory_s_val_v_incarnation[0][{txid}] = {inc}; "
                f"S_mv_memory_s_val_v_estimate[0][{txid}] = exec_blocked; pendingw[{txid}] = 1;")
        tr.emit("__CPROVER_atomic_end();")
        tr.emit(f"{ws.f('present').elem.name}{hz.sub(d.idxs + ['0'])} = 1;")
        tr.emit("}")
    return stub


def bene_stubs():
    st = sc.bene_true_stubs()

    def no(tr, c):
        raise TranslateError("beneficiary read versions are excluded from this kernel")
    return st


def build(N, roles):
    def b(tr):
        H = hz.Harness(tr, "c02_" + "".join(roles))
        S = H.shared("S", "Scheduler<DB>")
        sc.freeze_sched(H, S, N)
        k = K(H, S, N)
        H.cvar("F_lower", "usize"); H.cvar("pendingw", "_Bool", dims=[N])
        H.cvar("bene_invalidated", "unsigned char"); H.cvar("in_validate", "_Bool"); H.cvar("scan_before_ts", "_Bool"); H.cvar("clock_at_validate", "usize")
        H.c("bene_invalidated = 0; in_validate = 0; scan_before_ts = 0; clock_at_validate = 0;")
        H.cvar("f_parked", "_Bool"); H.cvar("f_notified", "_Bool"); H.cvar("f_parked_at", "usize")
        H.c("f_parked = 0; f_notified = 0; f_parked_at = 0;")
        _CLOCK_LV[0] = k.ctx("logical_clock")
        sc.init_sched(H, S, N)
        # the dependency graph is inert in this kernel: nothing is claimable for execution through the cursor
        H.c(f"{H.lv(S, 'tx_dependency.index')} = {N};")
        for i in range(N):
            H.c(f"{H.lv(S, 'tx_dependency.dependent_state.e.data.onboard', [i])} = 0;")
            for j in range(N):
                H.c(f"{H.lv(S, 'tx_dependency.affect_txs.e.data.present.e', [i, j])} = 0;")
        k.havoc("F_lower", "pendingw")
        nR = roles.count("R")
        for r in range(nR):
            H.param(f"T{r}")
            H.c(f"T{r} = nondet_usize(); __CPROVER_assume(T{r} < {N} && {k.status('T%d' % r)} == {ST['Executing']});")
            for m in range(r):
                H.c(f"__CPROVER_assume(T{r} != T{m});")
        H.param("exec_fail0", "_Bool")
        H.c("exec_fail0 = nondet_bool();")
        r = 0
        for ti, role in enumerate(roles):
            t = H.thread(f"t{ti}{role}"); H.enter(t)
            if role == "V":
                task = H.local(f"task{ti}", "Option<Task>")
                H.call("Scheduler::next", [H.ref(S)], task)
                td = H.lv(task, "d")
                H.c(f"if ({td} == {H.variant(task, '', 'Some')}) {{")
                inner = H.nav(task, "Some.0")
                H.assert_(f"{H.lv(inner, 'd')} == {H.variant(inner, '', 'Validation')}", "with an inert dependency cursor next() only hands out validation tasks")
                H.c(f"if ({H.lv(inner, 'd')} == {H.variant(inner, '', 'Validation')}) {{")
                t2 = H.local(f"task{ti}b", "Option<Task>")
                vt = H.lv(inner, "Validation.0.txid")
                H.cvar(f"vt{ti}", "usize"); H.cvar(f"wasv{ti}", "_Bool")
                H.c(f"vt{ti} = {vt}; __CPROVER_assume(vt{ti} < {N});")
                H.c(f"__CPROVER_atomic_begin(); wasv{ti} = ({k.status('vt%d' % ti)} == {ST['Validating']}); bene_invalidated = 0; scan_before_ts = 0; "
                    f"clock_at_validate = {k.ctx('logical_clock')}; in_validate = 1; __CPROVER_atomic_end();")
                H.call("Scheduler::validate", [H.ref(S), VUnit(), VLoc(Loc(H.nav(inner, "Validation.0"), []))], t2)
                H.c("in_validate = 0;")
                H.assert_(f"!(wasv{ti} && {k.status('vt%d' % ti)} == {ST['Conflict']}) || bene_invalidated >= 1",
                          "a validation that ends in Conflict retracts the incarnation's fee-recipient history entry (Beneficiary::invalidate), whatever its write set")
                H.assert_(f"!(wasv{ti} && {k.status('vt%d' % ti)} == {ST['Unconfirmed']}) || !scan_before_ts",
                          "a validation that ends Unconfirmed drew its logical timestamp before it looked at the multi-version memory "
                          "(a rewind issued during the scan must get a newer lower bound)")
                H.c("} }")
            elif role == "R":
                H.cvar("exec_blocked", "_Bool", shared=False); H.cvar("exec_blocker", "usize", shared=False); H.cvar("exec_fail", "_Bool", shared=False)
                H.c("exec_fail = exec_fail0; exec_blocked = 0; exec_blocker = 0;")
                t2 = H.local(f"taskr{ti}", "Option<Task>")
                H.call("Scheduler::execute_task", [H.ref(S), VUnit(), VUnit(), VAgg([H.val(f"T{r}"), H.val("1")])], t2)
                # a task handed back (validate self) is a later step: the status is already Validating
                H.c(f"__CPROVER_atomic_begin(); pendingw[T{r}] = 0; __CPROVER_atomic_end();")
                r += 1
            elif role == "G":
                # ghost finality coordinator (one pass of run_finality_loop's outer loop, run atomically at any visible operation of the validator):
                # it may finalise the head if that is Unconfirmed and unlocked, then examines the new head; if that is not ready it parks.
                H.c("__CPROVER_atomic_begin();")
                fin = k.ctx("finality")
                H.c(f"if ({fin} < {N} && nondet_bool() && !{H.lv(S, 'tx_states.e.locked', ['(%s < %d ? %s : 0)' % (fin, N, fin)])} && "
                    f"{k.status('(%s < %d ? %s : 0)' % (fin, N, fin))} == {ST['Unconfirmed']}) {{ {k.status(fin)} = {ST['Finality']}; {fin} = {fin} + 1; }}")
                H.c(f"if ({fin} < {N} && !{H.lv(S, 'tx_states.e.locked', ['(%s < %d ? %s : 0)' % (fin, N, fin)])} && "
                    f"{k.status('(%s < %d ? %s : 0)' % (fin, N, fin))} != {ST['Unconfirmed']}) {{ f_parked = 1; f_parked_at = {fin}; f_notified = 0; }}")
                H.c("__CPROVER_atomic_end();")
            elif role == "F":
                cand = H.local(f"cand{ti}", "Option<(MutexGuard<TxState>, usize)>")
                H.cvar("fidx", "usize", shared=False)
                H.c(f"fidx = {k.ctx('finality')};")
                H.call("Scheduler::lock_finality_candidate", [H.ref(S), H.val("fidx"), H.val("F_lower")], cand)
                H.c(f"if ({H.lv(cand, 'd')} == {H.variant(cand, '', 'Some')}) {{")
                H.c(f"__CPROVER_assume(fidx < {N});")
                for j in range(N):
                    H.assert_(f"fidx != {j} || {k.valid_now(j)}",
                              f"SAFETY tx {j} handed to finality read the latest non-estimate versions of its predecessors (no stale result becomes final)")
                H.c(f"F_lower = {H.lv(cand, 'Some.0.1')};")
                g = H.nav(cand, "Some.0.0")
                # loop body of run_finality_loop: status = Finality; drop(guard); publish_finality(idx + 1)
                cp = tr.deref(VLoc(Loc(g.fields[1], [])))
                H.c(f"{tr.lv(Loc(cp.node.f('status').discr, cp.idxs))} = {ST['Finality']};")
                tr.drop(Loc(g, []))
                H.call("SchedulerContext::publish_finality", [H.ref(S, "scheduler_ctx"), H.val("fidx + 1")])
                H.c("}")
        H.post()
        if "G" in roles:
            # lost wake-up: the coordinator parked on a head that was not ready; the validator then made exactly that head Unconfirmed
            for ti, role in enumerate(roles):
                if role == "V":
                    H.assert_(f"!(f_parked && wasv{ti} && vt{ti} == f_parked_at && {k.ctx('finality')} == f_parked_at && {k.status('vt%d' % ti)} == {ST['Unconfirmed']}) || f_notified",
                              "the finality coordinator parked on head k while k was not ready; the validation that then publishes k as Unconfirmed notifies it "
                              "(publish, unlock, THEN read the finality index)")
            H.cover("f_parked && f_notified", "parked coordinator notified")
            return H
        k.inv(lambda c, m: H.assert_(c, "INV " + m), "F_lower", "pendingw", clock_max=240)
        H.cover(" || ".join(f"{k.status(i)} == {ST['Unconfirmed']}" for i in range(N)), "some tx ends Unconfirmed")
        H.cover(" || ".join(f"({k.status(i)} == {ST['Unconfirmed']} && !{k.valid_now(i)})" for i in range(1, N)), "a stale Unconfirmed tx exists at the end (fenced)")
        H.cover(f"{k.ctx('finality')} >= 2", "finality reached 2")
        return H
    return b


def cfg(N, rounds=None, wake=False):
    stubs = dict(sc.bene_true_stubs())
    if wake:
        def notify(tr, c):
            tr.emit("__CPROVER_atomic_begin(); f_notified = 1; __CPROVER_atomic_end();")
        stubs["WaitSlot::notify"] = notify

    def invalidate(tr, c):
        tr.emit("bene_invalidated++;")
        c.ret(VScalar("1", "_Bool"))
    stubs["Beneficiary::invalidate"] = invalidate
    stubs["<impl ParallelTransactionExecutor as ParallelTransactionExecutor>::execute_incarnation"] = exec_stub(N)
    c = sc.mv_cfg(N, L=1, stubs=stubs)
    c["loops"] = {"Scheduler::next": {"*": (2, "assume")}, "Scheduler::validate": {"*": (3, "assert")},
                  "ExecutionFrontier::advance": {"*": (N + 2, "assert")}, "claim_before": {"*": (3, "assume")},
                  "Scheduler::execute_task": {"*": (3, "assert")}, "Scheduler::mark_mv_estimate": {"*": (3, "assert")}}
    if rounds == "inject":
        c["inject"] = True
    elif rounds:
        c["seq_rounds"] = rounds

    def on_lookup(tr, c_, dm):
        # ghost for validate: a read-set scan that looks into the multi-version memory before the validation's logical timestamp is drawn
        tr.emit(f"if (in_validate && {_CLOCK_LV[0]} == clock_at_validate) scan_before_ts = 1;")
    c["dash_get_hook"] = on_lookup
    return c


# ------------------------------------------------------------------------------------------------ rewind on a changed write set (L = 2)
def exec_stub_ws(N, L):
    def stub(tr, c):
        """executor.execute_incarnation: succeeds, reads nothing, writes a solver-chosen subset of the L locations (wnew[]),
        optionally reports an estimate blocker"""
        d = c.dest()
        res, acc = d.node.f("result"), d.node.f("accesses")
        rs, ws, bt = acc.f("read_set"), acc.f("write_set"), acc.f("blocking_txs")
        for k in range(bt.f("present").cap):
            tr.emit(f"{bt.f('present').elem.name}{hz.sub(d.idxs + [str(k)])} = (exec_blocked && exec_blocker == {k});")
        for l in range(L):
            tr.emit(f"{rs.f('present').elem.name}{hz.sub(d.idxs + [str(l)])} = 0; {rs.f('keys').elem.fields[0].name}{hz.sub(d.idxs + [str(l)])} = {l};")
            tr.emit(f"{ws.f('present').elem.name}{hz.sub(d.idxs + [str(l)])} = wnew[{l}]; {ws.f('keys').elem.fields[0].name}{hz.sub(d.idxs + [str(l)])} = {l};")
        tr.emit(f"{tr.lv(Loc(acc.f('blocked_by_beneficiary'), d.idxs))} = 0;")
        oki = res.vindex("Ok")
        tr.emit(f"{tr.lv(Loc(res.discr, d.idxs))} = {oki}; {tr.lv(Loc(res.variants[oki][1].fields[0].fields[0], d.idxs))} = 7;")
    return stub


def build_rewind(N, L):
    def b(tr):
        H = hz.Harness(tr, "c02_rewind")
        S = H.local("S", "Scheduler<DB>")
        sc.freeze_sched(H, S, N)
        k = K(H, S, N)
        sc.init_sched(H, S, N); sc.init_ctx(H, S, N); sc.init_tx_tables(H, S, N, L)
        H.cvar("wnew", "_Bool", dims=[L], shared=False); H.cvar("wold", "_Bool", dims=[L], shared=False); H.cvar("had_prev", "_Bool", shared=False)
        H.cvar("exec_blocked", "_Bool", shared=False); H.cvar("exec_blocker", "usize", shared=False)
        H.cvar("T", "usize", shared=False); H.cvar("clk0", "usize", shared=False); H.cvar("val0", "usize", shared=False)
        H.c(f"T = nondet_usize(); __CPROVER_assume(T < {N}); exec_blocked = nondet_bool(); exec_blocker = nondet_usize(); __CPROVER_assume(exec_blocker < T || !exec_blocked);")
        H.c("if (T == 0) exec_blocked = 0;")
        H.c(f"clk0 = nondet_usize(); __CPROVER_assume(clk0 >= 1 && clk0 < 200); {k.ctx('logical_clock')} = clk0;")
        H.c(f"val0 = nondet_usize(); __CPROVER_assume(val0 <= {N}); {k.ctx('validation')} = val0;")
        H.c(f"{k.ctx('finality')} = nondet_usize(); {k.ctx('committed')} = nondet_usize(); __CPROVER_assume({k.ctx('committed')} <= {k.ctx('finality')} && {k.ctx('finality')} <= T);")
        for i in range(N):
            H.c(f"{k.lower(i)} = nondet_usize(); {k.unconf(i)} = nondet_usize(); __CPROVER_assume({k.lower(i)} < clk0 && {k.unconf(i)} < clk0);")
            H.c(f"{k.status(i)} = nondet_uchar(); __CPROVER_assume({k.status(i)} <= 6); {k.inc(i)} = nondet_usize(); __CPROVER_assume({k.inc(i)} <= 3);")
        H.c(f"__CPROVER_assume({k.status('T')} == {ST['Executing']} && {k.inc('T')} == 2);")
        # T's previous result: none, or one with an arbitrary write set; MV memory: arbitrary entries
        ws = H.nav(k.trn, "Some.0.write_set"); rs = H.nav(k.trn, "Some.0.read_set")
        H.c(f"had_prev = nondet_bool(); {H.lv(k.trn, 'd', ['T'])} = had_prev; {H.lv(k.trn, 'Some.0.execute_result.d', ['T'])} = 0;")
        for l in range(L):
            H.c(f"wnew[{l}] = nondet_bool(); wold[{l}] = nondet_bool();")
            H.c(f"{H.lv(ws, 'present.e', ['T', l])} = wold[{l}]; {H.lv(ws, 'keys.e.id', ['T', l])} = {l}; {H.lv(rs, 'present.e', ['T', l])} = 0;")
            H.c(f"{H.lv(k.mv, 'data.present', [l])} = nondet_bool();")
            for a in range(N):
                H.c(f"{H.lv(k.mv, 'data.val.present.e', [l, a])} = nondet_bool(); {H.lv(k.mv, 'data.val.vals.e.incarnation', [l, a])} = nondet_usize(); {H.lv(k.mv, 'data.val.vals.e.estimate', [l, a])} = nondet_bool();")
        t2 = H.local("taskr", "Option<Task>")
        H.call("Scheduler::execute_task", [H.ref(S), VUnit(), VUnit(), VAgg([H.val("T"), H.val("2")])], t2)
        newloc = "(!had_prev || " + " || ".join(f"(wnew[{l}] && !wold[{l}])" for l in range(L)) + ")"
        ab = H.lv(S, "abort")
        H.assert_(f"!{ab}", "a consistent attempt never aborts the block")
        low = lambda i: f"({k.lower(i)} >= clk0)"
        for t in range(N - 1):
            H.assert_(f"!(T == {t} && {newloc}) || ({k.ctx('validation')} <= {t + 1} && ({low(t)} || {low(t + 1)}))",
                      f"tx {t} published a location its previous incarnation had not written (or its first result): every later transaction is sent back "
                      f"through validation (cursor rewound to at most {t + 1}, and a fresh lower timestamp fences validations made before)")
        for t in range(N - 1):
            H.assert_(f"!(T == {t} && exec_blocked) || ({k.status(t)} == {ST['Conflict']} && {k.ctx('validation')} <= {t + 1} && {low(t + 1)})",
                      f"tx {t} blocked on an estimate: Conflict, and its successors are revalidated")
        H.assert_(f"exec_blocked || {k.status('T')} == {ST['Executed']} || {k.status('T')} == {ST['Validating']} || {H.lv(t2, 'd')} == 1",
                  "an unblocked successful attempt ends Executed / Validating (or handed its successor on)")
        H.cover(f"had_prev && !exec_blocked && wnew[1] && !wold[1] && wold[0] && !wnew[0]", "write set moved from location 0 to location 1 (same size)")
        H.cover(f"had_prev && !exec_blocked && !{newloc} && {H.lv(t2, 'd')} == 1", "no new location: a task is handed back without rewinding")
        return H
    return b


def cfg_rewind(N, L):
    stubs = dict(sc.bene_true_stubs())
    stubs["<impl ParallelTransactionExecutor as ParallelTransactionExecutor>::execute_incarnation"] = exec_stub_ws(N, L)
    c = sc.mv_cfg(N, L=L, stubs=stubs)
    c["loops"] = {"Scheduler::execute_task": {"*": (L + 2, "assert")}, "Scheduler::mark_mv_estimate": {"*": (L + 2, "assert")},
                  "ExecutionFrontier::advance": {"*": (N + 2, "assert")}, "TxDependency::remove": {"*": (N + 1, "assert")}}
    return c


# ------------------------------------------------------------------------------------------------ a failed validation retracts everything the incarnation published
def build_vconf(N, L):
    def b(tr):
        H = hz.Harness(tr, "c02_vconf")
        S = H.local("S", "Scheduler<DB>")
        sc.freeze_sched(H, S, N)
        k = K(H, S, N)
        sc.init_sched(H, S, N); sc.init_ctx(H, S, N); sc.init_tx_tables(H, S, N, L)
        H.cvar("bene_invalidated", "unsigned char", shared=False); H.cvar("T", "usize", shared=False); H.cvar("wold", "_Bool", dims=[L], shared=False)
        H.c(f"bene_invalidated = 0; T = nondet_usize(); __CPROVER_assume(T < {N});")
        H.c(f"{k.ctx('logical_clock')} = 7; {k.ctx('validation')} = nondet_usize(); __CPROVER_assume({k.ctx('validation')} <= {N});")
        H.c(f"{k.ctx('finality')} = nondet_usize(); __CPROVER_assume({k.ctx('committed')} <= {k.ctx('finality')} && {k.ctx('finality')} <= T);")
        for i in range(N):
            H.c(f"{k.status(i)} = nondet_uchar(); __CPROVER_assume({k.status(i)} <= 6); {k.inc(i)} = nondet_usize(); __CPROVER_assume({k.inc(i)} <= 3);")
            H.c(f"{H.lv(S, 'tx_dependency.dependent_state.e.data.onboard', [i])} = 0;")
        H.c(f"__CPROVER_assume({k.status('T')} == {ST['Validating']} && {k.inc('T')} == 2);")
        ws = H.nav(k.trn, "Some.0.write_set"); rs = H.nav(k.trn, "Some.0.read_set"); rv = H.nav(rs, "vals.e")
        H.c(f"{H.lv(k.trn, 'd', ['T'])} = 1; {H.lv(k.trn, 'Some.0.execute_result.d', ['T'])} = 0;")
        for l in range(L):
            H.c(f"wold[{l}] = nondet_bool(); {H.lv(ws, 'present.e', ['T', l])} = wold[{l}]; {H.lv(ws, 'keys.e.id', ['T', l])} = {l};")
            H.c(f"{H.lv(rs, 'present.e', ['T', l])} = nondet_bool(); {H.lv(rs, 'keys.e.id', ['T', l])} = {l}; {H.lv(rv, 'd', ['T', l])} = nondet_bool() ? {k.kind('Storage')} : {k.kind('MvMemory')};")
            H.c(f"{H.lv(rv, 'MvMemory.0.txid', ['T', l])} = nondet_usize(); {H.lv(rv, 'MvMemory.0.incarnation', ['T', l])} = nondet_usize();")
            H.c(f"{H.lv(k.mv, 'data.present', [l])} = nondet_bool();")
            for a in range(N):
                H.c(f"{H.lv(k.mv, 'data.val.present.e', [l, a])} = nondet_bool(); {H.lv(k.mv, 'data.val.vals.e.incarnation', [l, a])} = nondet_usize(); {H.lv(k.mv, 'data.val.vals.e.estimate', [l, a])} = nondet_bool();")
        t2 = H.local("taskv", "Option<Task>")
        H.call("Scheduler::validate", [H.ref(S), VUnit(), VAgg([H.val("T"), H.val("2")])], t2)
        H.assert_(f"!{H.lv(S, 'abort')}", "a consistent validation never aborts the block")
        H.assert_(f"{k.status('T')} == {ST['Conflict']} || {k.status('T')} == {ST['Unconfirmed']}", "validation ends Conflict or Unconfirmed")
        H.assert_(f"!({k.status('T')} == {ST['Conflict']}) || bene_invalidated >= 1",
                  "a failed validation retracts the incarnation's fee-recipient history entry (Beneficiary::invalidate is called) -- also when its write set is empty")
        for l in range(L):
            H.assert_(f"!({k.status('T')} == {ST['Conflict']} && wold[{l}] && {H.lv(k.mv, 'data.present', [l])} && {H.lv(k.mv, 'data.val.present.e', [l, 'T'])}) || {H.lv(k.mv, 'data.val.vals.e.estimate', [l, 'T'])}",
                      f"... and marks what it wrote to location {l} as an estimate")
        H.assert_(f"!({k.status('T')} == {ST['Unconfirmed']}) || bene_invalidated == 0", "a successful validation retracts nothing")
        H.cover(f"{k.status('T')} == {ST['Conflict']} && !wold[0] && !wold[1]", "failed validation of an incarnation with an empty write set")
        H.cover(f"{k.status('T')} == {ST['Unconfirmed']}", "successful validation")
        return H
    return b


def cfg_vconf(N, L):
    stubs = dict(sc.bene_true_stubs())

    def invalidate(tr, c):
        tr.emit("bene_invalidated++;")
        c.ret(VScalar("1", "_Bool"))
    stubs["Beneficiary::invalidate"] = invalidate
    c = sc.mv_cfg(N, L=L, stubs=stubs)
    c["loops"] = {"Scheduler::validate": {"*": (L + 2, "assert")}, "Scheduler::mark_mv_estimate": {"*": (L + 2, "assert")}}
    return c


def specs(tier):
    N = 3
    out = []
    for roles in (["F"], ["V"], ["R"], ["V", "F"], ["R", "F"]):
        nm = "".join(roles)
        out.append(Spec(f"step_{nm}_n{N}", build(N, roles), cfg=cfg(N, rounds="inject"), unwind=N + 3, timeout=3000,
                        desc=f"inductive step, roles {' || '.join(roles)} (V validation worker, R executing worker, F finality step) from an arbitrary INV state"
                             + ("; second role runs atomically at any conflicting visible operation of the first (context bound A|B|A)" if len(roles) == 2 else ""),
                        bounds={"n": N, "locations": 1, "threads": len(roles), "memory_model": "SC", "context_switches": 2 if len(roles) == 2 else 0}))
    out.append(Spec(f"wake_VG_n{N}", build(N, ["V", "G"]), cfg=cfg(N, rounds="inject", wake=True), unwind=N + 3, timeout=3000,
                    desc="real next -> validate with a ghost finality coordinator pass (finalise head / examine new head / park) injected atomically at any visible operation: "
                         "a coordinator that parked on head k is notified by the validation that publishes k", bounds={"n": N, "locations": 1, "threads": 2, "context_switches": 2}))
    out.append(Spec("validate_conflict_retracts_n3_l2", build_vconf(N, 2), cfg=cfg_vconf(N, 2), unwind=N + 3, timeout=1800,
                    desc="real validate over two locations, any read set / write set / MV memory: a failed validation calls Beneficiary::invalidate and "
                         "marks its writes as estimates, whatever the write set", bounds={"n": N, "locations": 2, "threads": 1}))
    out.append(Spec("rewind_on_new_write_n3_l2", build_rewind(N, 2), cfg=cfg_rewind(N, 2), unwind=N + 3, timeout=1800,
                    desc="real execute_task over TWO locations, previous and new write sets any subsets: a location not written before (incl. a moved write of the same size) "
                         "rewinds validation for every later transaction", bounds={"n": N, "locations": 2, "threads": 1}))
    if tier == "thorough":
        for roles in (["F", "R"], ["F", "V"]):
            nm = "".join(roles)
            out.append(Spec(f"step_{nm}_n{N}", build(N, roles), cfg=cfg(N, rounds="inject"), unwind=N + 3, timeout=14000,
                            desc=f"roles {' || '.join(roles)}; second role atomic at any conflicting visible operation of the first",
                            bounds={"n": N, "locations": 1, "threads": 2, "context_switches": 2}))
    if tier == "experimental":
        for roles in (["V", "R"], ["R", "V"]):
            nm = "".join(roles)
            out.append(Spec(f"step_{nm}_n{N}", build(N, roles), cfg=cfg(N, rounds="inject"), unwind=N + 3, timeout=14000,
                            desc=f"roles {' || '.join(roles)}", bounds={"n": N, "locations": 1, "threads": 2, "context_switches": 2}))
    return out
