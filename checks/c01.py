"""C01  Parallel execution equals in-order revm execution (outcomes and bundle) -- the mechanism lemmas a solver can reach.

The end-to-end equality with stock revm on real transactions (interpreter, journal, bundle of a real block) is outside
this technique's reach (see MANIFEST level_note).  What is decided here, on the real code, for all inputs within bounds:

  h2a_storage_read / h2b_basic_read : read resolution to the latest preceding writer, else backing state, with the exact
                                      version recorded in the read set and estimate writers reported as blockers
                                      (IncarnationDb::storage / basic / code_by_address; = C08/h2, C09/h2)
  h2c_publish                       : what a finished incarnation publishes (= C08/h3)
  h2d_roundtrip_storage / _account  : publish by tx i, read by tx i+1 (= C08/h4, C09/h3)
  h3_validate, h3_validate_finality : read-set validation against version and estimate flag, estimate marking + rewind on
                                      conflict, timestamp fencing, no stale result finalised (Scheduler::validate / next /
                                      lock_finality_candidate inductive steps; = C02 step_V, step_VF)
  h3_execute                        : execute_task's publication / rewind step (= C02 step_R)
  h3_execute_rewind_two_locations   : real execute_task over two locations: a write set that gains a location (also by moving, same size) sends
                                      every later transaction back through validation (= C02 rewind_on_new_write)
"""
import c02
import c08
import c09

PICK = {
    "c08": {"h2_storage_read": "h2a_storage_read", "h3_publish": "h2c_publish", "h4_roundtrip": "h2d_roundtrip_storage"},
    "c09": {"h2_basic_read": "h2b_basic_read", "h3_roundtrip": "h2d_roundtrip_account"},
    "c02": {"step_V_n3": "h3_validate", "step_VF_n3": "h3_validate_finality", "step_R_n3": "h3_execute", "rewind_on_new_write_n3_l2": "h3_execute_rewind_two_locations"},
}


def specs(tier):
    out = []
    for mod, key in ((c08, "c08"), (c09, "c09"), (c02, "c02")):
        for s in mod.specs(tier):
            if s.name in PICK[key]:
                s.name = PICK[key][s.name]
                out.append(s)
    return out
