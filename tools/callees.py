#!/usr/bin/env python3
"""tools/callees.py <Type::fn> ... : list the callees (normalised) of the named MIR functions"""
import sys, os, glob
V = os.path.dirname(os.path.dirname(os.path.abspath(__file__)))
sys.path.insert(0, V + "/mir2c"); sys.path.insert(0, V + "/checks")
import srcdefs
from translate import Translator
mirs = sorted(glob.glob(V + "/.cache/mir/*.mir"), key=os.path.getmtime)
text = open(mirs[-1]).read()
tr = Translator(text, srcdefs.Sources(mirs[-1][:-4] + ".src"), {})
for key in sys.argv[1:]:
    cands = [key] + [k for k in tr.closures if key in k] if hasattr(tr, "closures") else [key]
    f = tr.find_fn(key)
    if f is None:
        print("?? not found:", key, " candidates:", [k for k in tr.by_key if key.split("::")[-1] in k][:10] if hasattr(tr, "by_key") else "")
        continue
    print("==", key, "=", f.name, f"({len(f.blocks)} blocks, {f.nargs} args)")
    for i, l in sorted(f.locals.items())[:f.nargs + 1]:
        print("     _%d: %s" % (i, l))
    seen = []
    for b in f.blocks.values():
        if b.term.kind == "call":
            k = Translator.normalize_callee(b.term.func)
            if k not in seen:
                seen.append(k)
    for k in seen:
        from translate import strip_generics
        key = Translator.canon_key(strip_generics(k))
        m = "noop" if any(r.search(key) for r in tr.noop_re) else "model" if tr.models.lookup(key) else ("mir" if (tr.find_fn(k) or tr.find_fn(key)) else "??")
        print(f"    [{m}] {key}      <- {k[:110]}")
