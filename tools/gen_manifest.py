#!/usr/bin/env python3
"""Regenerates /verif/MANIFEST.json from the table below (kept in one place so it is always valid)."""
import json, os
V = os.path.dirname(os.path.dirname(os.path.abspath(__file__)))
TRUST = ("Trusted: nightly rustc MIR as a faithful rendering of the built code, the mir2c translator, the model library "
         "(SC atomics, test-and-set locks, one-token parker, bounded containers with solver-chosen iteration order), CBMC 6.11 + CaDiCaL. ")
IDB = ("Abstractions: 2 addresses x 2 slots, 8-bit abstract U256/B256 values (only equality, zero tests and +/- matter), opaque bytecode ids, the "
       "backing database is a fault-free ghost array, the beneficiary address is outside the domain (its path: C07); revm-state accessors "
       "(is_touched/is_created/is_selfdestructed/is_empty/is_empty_code_hash/changed_storage_slots) are one-line restatements listed in "
       "mir2c/revm_models.py; journal accounts carry their code when their code hash is non-empty and a code-hash loss comes with a nonce bump (revm). ")
CLAIMS = {
 "C15": dict(
    text="Bounded model checking of the production cursor/frontier functions (MIR of cursor.rs, context.rs translated to C, "
         "CBMC threads): all interleavings and all start states within n<=3..4 txs, 3-4 threads, <=2-3 CAS retries. Decides "
         "reissue-after-rewind, limit safety and frontier safety/catch-up. Timestamp clause: inductive-step kernels (arbitrary pre-state "
         "satisfying a stated invariant) on the real rewind_validation_to / validate / execute_task / lock_finality_candidate: a stale "
         "Unconfirmed transaction is always fenced by a newer rewind timestamp at or below it, so finality never accepts it.",
    note=TRUST + "Sequential consistency only (weak-memory behaviours of the declared orderings are outside the claim); "
         "schedules needing more CAS retries than the bound are outside the claim.",
    design="5/C15"),
 "C14": dict(
    text="Bounded model checking of the real entry points (execute, parallel_execute, fallback_sequential, run_once and their closures, "
         "MIR -> C): 2-3 racing callers and 3 successive calls, every choice of entry point; the two block bodies are counting ghosts. "
         "Decides: exactly one body runs, every other call returns the only-once error with the documented txid, nothing else is touched.",
    note=TRUST + "The bodies parallel_execute_inner / replay_uncommitted_suffix are stubs (they are the only code that touches outcomes/state); SC atomics.",
    design="5/C14"),
 "C16": dict(
    text="Refinement + induction. Refinement: from any invariant graph state the real Scheduler::execute_task (ghost executor: Ok / Err, any blocker set) "
         "leaves graph, cursor, statuses and state locks exactly as one of the scripted finishing roles does (unblocked success = remove + hand-off; "
         "otherwise wait for some predecessor / re-queue / own commit barrier). Induction: one step with concurrency inside, on the real TxDependency code (next/add/remove/commit/key_tx) and the real "
         "Scheduler::execution_task (status dispatch of every cursor claim / direct hand-off on a real Scheduler's tx_states; MIR -> C): from an "
         "arbitrary state satisfying a stated representation invariant, every role alone and 16 pairs (thorough: 7 more pairs, 2 triples, n=4) of scheduler roles run "
         "concurrently under all interleavings and must re-establish the invariant (live reverse edge, blocker live, cursor reaches every "
         "claimable tx, no stale release, barrier only below the committed prefix, lock order); a sequential harness shows invariant => "
         "every transaction completes (no orphan). n=3 (thorough n=4).",
    note=TRUST + "The finishing actions of executors / validators (what execute_task / validate do with the graph, then the status publication under "
         "the state lock) are scripted roles over the real TxDependency calls; the ghost phase is tied to the real status field. Pairs SN, SS, NN, XS and "
         "triples BBS, SSB, BBN got no verdict within an hour each; triples KCN, BNC, BSC were not re-measured with the real dispatch; none of them is registered. Blocked lock acquisition is an assume; lock-order "
         "assertions stand in for deadlock freedom.",
    design="5/C16"),
 "C17": dict(
    text="Bounded model checking of the real WaitSlot (register/notify/wait_while, MIR -> C) with a parker that has NO timeout: a lost "
         "wake-up is a reachable assertion failure. Waiter loop vs publishing notifier, stale notifier (incl. before registration), two "
         "publications, and the real commit-loop predicate with the real cancel() and finality notification (all interleavings, <=3 wait rounds); "
         "producer side on the real run_finality_loop: every finality publication is followed by a commit notification before the loop sleeps or "
         "returns, for every batch shape (n=3); producer side of the finality wake-up on the real next -> validate: a coordinator pass (ghost) that "
         "parked on head k at any visible operation of the validator is notified by the validation that publishes k (n=3, context bound A|B|A).",
    note=TRUST + "std parker modelled as one token per thread (unpark-before-park makes park return); OnceLock set/get atomic; SC.",
    design="5/C17"),
 "C04": dict(
    text="Bounded model checking of the real error paths (MIR -> C): post_execute for every abort reason x arbitrary per-tx results; "
         "run_commit_loop + install_commit_loop_result with a solver-chosen commit outcome per index (ok / needs-fallback / database error), "
         "arbitrary finality progress and foreign aborts; execute_sequential_suffix with a solver-chosen transact oracle; and the real "
         "execute_task error branch racing the predecessor's publication and commit (all interleavings, n=2): a fatal error is reported "
         "only for an attempt that read the state of its committed predecessors, the returned index equals the committed boundary, "
         "outcomes are exactly that prefix, error payloads are unchanged.",
    note=TRUST + "Transactions are abstract (opaque result ids, an abstract state version read once per attempt); OrderedCommitter::commit, "
         "the suffix replay body and the executor are solver-chosen oracles in these kernels (commit itself is decided in C03). Faults inside "
         "revm opcodes other than through these interfaces are outside the claim. n<=3, <=2 environment steps in the commit-loop kernel.",
    design="5/C04"),
 "C02": dict(
    text="One inductive step with concurrency inside on the real scheduler code (next -> validate, execute_task with a ghost executor, "
         "lock_finality_candidate; real multi-version memory model; n=3, one maximally contended location): from ANY state satisfying a "
         "stated invariant, each role alone and the pairs validation||finality, execution||finality (second role atomic at every conflicting "
         "visible operation of the first: context bound A|B|A) re-establish the invariant, and whenever finality hands out a transaction its "
         "recorded read version is the latest non-estimate entry of its predecessors -- a speculative result computed from state a predecessor "
         "changed afterwards is never finalised. A separate kernel runs the real execute_task over TWO locations with arbitrary previous/new write "
         "sets: a location the previous incarnation had not written (also a same-size move) sends every later transaction back through validation, and a "
         "Conflict attempt always rewinds its successors; the real validate over two locations retracts a failed incarnation whatever its write set "
         "(estimate marks + Beneficiary::invalidate) and draws its logical timestamp before its first multi-version-memory lookup. "
         "Commit order / exactly-once / exact prefix of the commit loop: C04 h2.",
    note=TRUST + "Abstraction (inductive steps): every transaction reads and writes one location; the executor is a ghost doing IncarnationDb's read-latest-below/"
         "publish for it; re-executions with unchanged write sets start from the Executing state of a first incarnation only. A counterexample "
         "from a pre-state no history reaches would mean the invariant is too weak (none found). Pairs that split both roles, the pairs "
         "V||R, and n>3 are outside the claim. The three finality-loop body statements are harness glue around the real lock_finality_candidate.",
    design="5/C02"),
 "C08": dict(
    text="Bounded model checking of the real IncarnationDb read/publish code (storage, finish_incarnation, publish_writes, "
         "FinalizedAccount::from; MIR -> C): for ANY multi-version-memory content below the reader storage() returns the slot version at/after "
         "the newest reset marker, else zero behind a marker, else the backing value, records BOTH locations with the exact versions read, "
         "and reports estimate writers as blockers; for ANY journal account (all 256 status bytes) a finished incarnation publishes exactly "
         "the versions the property states for deleted / created / updated / untouched accounts; publish-then-read round trip: zero after "
         "deletion or creation unless written by the creating transaction, untouched storage elsewhere.",
    note=TRUST + IDB + "Per-fork normalisation of self-destruct / empty accounts happens inside revm before grevm sees the account: outside "
         "the claim. The commit-side storage clearing (parallel_state.rs) is decided in C10.",
    design="5/C08"),
 "C09": dict(
    text="Bounded model checking of the real code-change path (publish_writes' code_changed detection, IncarnationDb::basic, "
         "code_by_address; MIR -> C): Code is published iff the post-state has non-empty code that differs from the code hash recorded at read "
         "time; the account is published with code stripped; basic() resolves the latest preceding account version (incl. deletion) else the "
         "backing account, fills code from the latest preceding Code version else from the backing store by the resolved hash, records both "
         "locations and the snapshot; round trip for set / re-pointed / cleared / set-again code.",
    note=TRUST + IDB + "Authorisation-list processing and nonce consumption are revm's: outside the claim.",
    design="5/C09"),
 "C01": dict(
    text="The mechanism lemmas of parallel == in-order execution that a solver reaches on the real code: read resolution to the latest "
         "preceding writer else backing state with exact version recording (storage / basic / code), what a finished incarnation publishes, "
         "publish->read round trips, read-set validation against version and estimate flag, estimate marking and rewinds, timestamp fencing "
         "and 'no stale result is finalised' as inductive steps from arbitrary invariant states, rewind of validation whenever a re-execution's "
         "write set gains a location (two-location kernel on the real execute_task) (C02 kernels). Ordered commit: C03/C04.",
    note=TRUST + IDB + "NOT decided (outside this technique's reach, see DESIGN.md): equality with stock revm on real transactions -- the revm "
         "interpreter/journal, real ResultAndState, the bundle of a real block, the hardfork matrix -- and the end-to-end composition of the "
         "lemmas over whole schedules (the protocol harness P of the design was not built).",
    design="5/C01"),
 "C03": dict(
    text="Bounded model checking of the real commit-time nonce verdict (OrderedCommitter::commit, MIR -> C): for EVERY tx nonce, committed "
         "sender account (absent / any nonce), speculative post-state, nonce-check setting, deferred reward and database fault the speculative "
         "result is committed iff the check is off or the nonce equals the nonce in COMMITTED state (and not both u64::MAX); otherwise the "
         "transaction is left to sequential fallback and nothing is applied; faults carry the transaction index. Plus the real sequential "
         "suffix replay (Skipped carries revm's InvalidTransaction unchanged, later transactions still run) and the real commit loop (a "
         "mismatch at the head requests fallback with an exact committed prefix), and the replay's pre-check reject_nonce_overflow: it reports "
         "NonceOverflowInTransaction iff nonce checking is on and BOTH the tx nonce and the sender's state nonce are u64::MAX, otherwise revm's own reason stands.",
    note=TRUST + "revm's validate_* decides which transactions are protocol-invalid: it is the oracle's definition and outside the claim. "
         "2 abstract addresses, 8-bit balances, full 64-bit nonces; ParallelStateCommit::{basic_ref, commit} are ghosts (commit-side state: C10).",
    design="5/C03"),
 "C07": dict(
    text="Bounded model checking of grevm's own fee-recipient rules on the real code: BeneficiaryMode::apply + BeneficiaryReward::from_gas "
         "(revm's context, journal and reward hook uninterpreted) -- the hook runs exactly once in Immediate mode, for a zero reward and for a "
         "recipient already in the journal, never otherwise; a reward is deferred iff Deferred mode, fees on, non-zero, recipient not in the "
         "journal, and equals revm's rule (>= London: price - basefee, saturating; used - reservoir, saturating) for every fork; ordered commit "
         "folds the deferred reward once into the COMMITTED account with checked add, materialises an absent account, keeps the other fields; "
         "the beneficiary history (history.rs) from ANY 3-transaction entry vector: a read = nearest snapshot or anchor plus every later reward "
         "oldest-first with per-step checked add, fails with the first estimate, records every contributing (writer, incarnation); validation "
         "compares the whole chain; record only for a newer incarnation, invalidate only for the same one; the real IncarnationDb::basic on the "
         "fee recipient over a real Beneficiary with any 3-entry history returns exactly that resolution, records a Beneficiary read version with "
         "the whole origin chain, and on an estimate blocks the incarnation (flag + blocker, absent account, nothing recorded, no read of the "
         "mutable committed cache); the scheduler side of invalidation: the real validate calls Beneficiary::invalidate for every "
         "validation ending in Conflict, also for an incarnation with an empty write set.",
    note=TRUST + "Gas quantities/prices bounded to 6 bits in the apply kernel (the 128-bit multiplier is intractable beyond that), 8-bit balances "
         "in the commit and history kernels, sequential history semantics only (RwLock modelled as an exclusive lock; racing record / invalidate / scan "
         "on different entries are not explored). NOT decided: revm's touch / materialisation semantics inside the journal.",
    design="5/C07"),
 "C10": dict(
    text="Bounded model checking of ParallelState's read path and commit-side storage glue on the real code (ParallelStateView::db_storage, "
         "ParallelCacheState::apply_account_state, update_storage_slot; nested DashMap model with per-key locks and the Entry API): after the "
         "ordered commit of ANY journal account (all status bytes; destroyed / created / empty-touched / changed, slot changed or not) "
         "db_storage serves exactly what revm's State serves -- sequentially, and when a speculative worker's cache-filling read races the "
         "commit (either role running atomically at every conflicting visible operation of the other: context bound A|B|A): a concurrent "
         "read never changes what the state later serves (this check found defect F1, fixed in 7f18662). Differential (translation-validation "
         "style): grevm's CacheAccountInfo::{selfdestruct, touch_empty_eip161, newly_created, change, increment_balance} (MIR) against revm-database's "
         "CacheAccount methods (MIR of the dependency, same run) from ANY (status, account) pair and any new info / storage: resulting status "
         "and account, the TransitionAccount (info, previous info, both statuses, storage_was_destroyed, storage slots) and the slot values "
         "handed to the storage cache are field-by-field equal. Account reads: the real ParallelStateView::db_basic against {first load of the account; real "
         "apply_account_state of any journal account}, sequentially and with either role atomic at every conflicting visible operation of the other, account cached or not, "
         "any backing account (absent / empty / non-empty): afterwards db_basic serves exactly the committed account (absent after selfdestruct / empty-touch; untouched: as before).",
    note=TRUST + "In the reader/commit kernels the status transitions are ghosts setting the documented status class (their equality with "
         "revm is the differential harnesses' job). NOT decided: drain_balance, apply_account_state against revm CacheState::apply_account_state "
         "as a whole, the extracted BundleState / reverts (bundle.rs; revm's merge code), db_code_by_hash / db_block_hash, real rayon scheduling. "
         "2 addresses x 2 slots, 8-bit values.",
    design="5/C10"),
 "C12": dict(
    text="Bounded model checking of the guard's own decision logic on the real code (guarded_create for CREATE and for CREATE2, "
         "DelegatedSafetyConfig::for_spec; MIR -> C, revm's interpreter / host / contract::create uninterpreted): for every static flag, fork, "
         "frame target, bytecode address and delegation / load-failure status of every address the result is StateChangeDuringStaticCall, "
         "NotActivated (CREATE2 before Petersburg), FatalExternalError (the TARGET cannot be loaded), NotActivated (the TARGET carries a "
         "delegation designator, whatever code the frame runs), else exactly one fall-through to revm's create with its result unchanged; "
         "the policy is the configured one from Prague on and disabled before, for every fork. The real build_evm (revm's builder chain as tagging ghosts): "
         "the instruction table is the guarded one, built for the block's spec, iff the guard is requested and the spec is Prague or later -- otherwise revm's "
         "mainnet table untouched; the standard precompile set is the spec's; every custom precompile is registered once at its address via to_alloy.",
    note=TRUST + "revm's contract::create, every other opcode and the gas table are stock revm: outside the claim; in the build_evm kernel revm's "
         "Context/Evm builders, Precompiles::new, gravity_instructions (decided separately by h2) and PrecompilesMap::apply_precompile are tagging ghosts; that both "
         "execution paths hand build_evm the normalised flag is read off the two call sites, not decided.",
    design="5/C12"),
 "C13": dict(
    text="Two engines on the real code. mir2c -> CBMC: WithReserveHandler::has_reserve_violation with the journal scan and planner as "
         "solver-chosen oracles -- violation iff some surviving delegated debit has a non-zero future cost and a final balance below "
         "min(balance before its first debit, future cost), queried with the handler's global transaction index. Kani (compiled crate, in-crate "
         "harnesses behind cfg(kani)): is_root_value_transfer <=> BalanceTransfer from the caller of exactly tx.value to the CALL target (any "
         "recipient for CREATE); balance_before_entry inverts every forward-applied pair of balance entries; the per-account suffix lookup "
         "returns the entry of the first own transaction strictly after txid. mir2c -> CBMC again: the journal scan itself -- the real "
         "ReserveJournalExt::delegated_debits_since with is_root_value_transfer and balance_before_entry inlined -- over ANY journal of <= 3 (thorough tier: 4) balance-relevant "
         "entries (transfer / self-destruct / balance change / other), any journal state of 3 accounts (present or not, code none / ordinary / EIP-7702 designator), "
         "any checkpoint and transaction (caller, value, CALL target or CREATE), hash-map iteration order chosen by the solver: exactly one candidate per delegated "
         "account with a surviving protected debit after the checkpoint (the single root value transfer excluded), final balance from the journal state, and "
         "balance_before = the balance immediately before the account's FIRST such debit (oracle written over the harness state).",
    note=TRUST + "Kani 0.68 (CBMC back end) with exact stand-ins for two x86 carry intrinsics used by ruint. The journal-scan kernel uses 8-bit abstract U256 values "
         "(saturating +/- at that width), Bytecode::is_eip7702 is an uninterpreted predicate of the opaque bytecode id, journals longer than 3 entries are outside the bound. "
         "NOT decided: build_schedule's saturating sums over TxEnv::max_balance_spending, the "
         "revert / refund / reimbursement call sequence of enforce_reserve, and the end-to-end funding guarantee over real EVM runs.",
    design="5/C13"),
 "C11": dict(
    text="Bounded model checking of the facade's own discipline on the real code (ParallelPrecompileState::{balance, sload, set_balance, "
         "sstore, ensure_healthy, ensure_mutable, record_fault}; revm's EvmInternals a counting ghost): a recorded fault is sticky and no "
         "journal call follows it; a mutation in a static context is refused with a halt BEFORE any journal call and recorded; otherwise "
         "exactly one journal call, the journal-aware one for the method (so the access passes IncarnationDb's read tracking); database errors "
         "become recorded fatal faults. And GrevmExecutor::execute_incarnation's lifecycle: every attempt, successful or failed, finalizes "
         "the revm journal exactly once before publishing / discarding, so a discarded or retried attempt leaves nothing in the reused EVM; the real "
         "to_alloy adapter closure: a database fault or static refusal recorded by the facade is the call's result whatever the implementation returned, "
         "otherwise the implementation's result is forwarded (Ok / halted output with the reservoir / EVM error), implementation called once; "
         "the EVM construction helper used by both execution paths (real build_evm) registers every custom precompile exactly once, at its own address, through that adapter.",
    note=TRUST + "The Alloy adapter closure is decided with alloy's PrecompileInput reduced to the field it reads and from_alloy / the implementation / "
         "PrecompileOutput::halt as ghosts. NOT decided: gas charged once, call-frame revert semantics of "
         "facade writes (revm journal), conflict detection of facade accesses beyond 'they go through the journal' (then C01's read kernels apply).",
    design="5/C11"),
 "C05": dict(
    text="Safety lemmas of termination on the real code, within bounds (no unbounded liveness): no lost notification for the WaitSlot "
         "protocol with a parker that has no timeout (C17 kernels); no orphaned transaction -- from any invariant state of the dependency "
         "graph every unfinished transaction completes, every role re-establishes the invariant, committing k-1 releases k parked behind "
         "its commit boundary, an erroring attempt that does not abort is claimable again, a duplicate claim of an already executed blocker "
         "(real Scheduler::execution_task) releases its dependents (C16 / C04 kernels); with the abort flag set "
         "next() hands out and claims nothing and the commit loop returns at once.",
    note=TRUST + "NOT decided: termination of schedules longer than the bounds; the panic path (CancelOnPanic, resume_unwind: needs MIR "
         "unwind edges); the full composition real finality loop || real commit loop (experimental tier, not decided by CBMC within hours; "
         "it is replaced by the decomposition producer-side kernel C17/h6 + waiter-side kernels C17/h1-h3); OS parker / threads.",
    design="5/C05"),
 "C06": dict(
    text="What a solver reaches of configuration independence, on the real code: the sequential replay closure and the parallel "
         "executor both query the reserve planner with the GLOBAL transaction index, install the transaction before the handler runs and "
         "commit / publish only successful outcomes; the loop feeding the replay closure (execute_sequential_suffix) calls it with consecutive "
         "global indices from ANY start boundary and the block's own transaction at that index; every hash-set / hash-map iteration in the kernels of C02, C08, C13, C16 is in a "
         "solver-chosen order and their assertions hold for every order (publish_writes, dependency release, reserve scan, write-set scans).",
    note=TRUST + "NOT decided: path selection by configuration only (parallel_execute_inner's MIR is dominated by thread::scope / spawn "
         "plumbing the translator does not cover), equality of two real EVM runs under different worker counts / policies (no encodable "
         "oracle), that both paths pass the same precompile list / instruction table to build_evm (same fields by reading).",
    design="5/C06"),
}
NA = {}
props = [json.loads(l) for l in open(os.path.join(V, "properties.jsonl"))]
checks, na = [], []
for p in props:
    pid = p["id"]
    if pid in CLAIMS:
        c = CLAIMS[pid]
        checks.append({
            "property_id": pid,
            "quick_cmd": f"./check {pid} quick",
            "thorough_cmd": f"./check {pid} thorough",
            "evidence_file": f"/verif/evidence/{pid}.json",
            "replay_cmd_template": "cat {path}",
            "engine": "mir2c+cbmc" + (c.get("engine_extra", "")),
            "level_claimed": {"category": "model_checking", "text": c["text"], "design_ref": c["design"]},
            "level_note": c["note"],
            "technique": c.get("technique", "symbolic execution of the real MIR (translated to C) + SAT-based bounded model checking (CBMC) over all inputs and interleavings within stated bounds"),
        })
    else:
        na.append({"property_id": pid, "reason": NA.get(pid, "check not built yet in this round (planned: solver-based kernel harnesses, see DESIGN.md section 5); not claimed")})
m = {
 "version": 1,
 "setup_cmd": "./setup.sh",
 "hooks": {"guard": "cfg(kani)", "enable": "set by cargo-kani itself; the MIR encodings need no hook (the MIR is dumped from the production configuration)",
           "baseline_off_cmd": "cd /repo && cargo test --workspace --no-fail-fast --offline", "source_commits": ["1e238ea"], "add_only": True},
 "engines": [{"name": "mir2c+cbmc", "path": "/verif/mir2c", "serves_properties": [c["property_id"] for c in checks],
              "kind_free_text": "nightly MIR dump of /repo -> pointer-free C (translator + model library) -> CBMC 6.11 bounded model checking (native threads, or context-bounded injection)"},
             {"name": "kani", "path": "/verif/kani", "serves_properties": ["C13"], "kind_free_text": "Kani 0.68 proof harnesses over the compiled crate (cfg(kani) hook in src/delegated_safety/reserve.rs)"}],
 "checks": checks,
 "not_applicable": na,
 "notes": "exit 0 = decided, holds within bounds; exit 1 = VIOLATION; exit 2 = inconclusive (translation gap, bound exceeded, solver limit) and is never reported as a pass.",
}
json.dump(m, open(os.path.join(V, "MANIFEST.json"), "w"), indent=1)
print("claimed:", [c["property_id"] for c in checks])
