#!/usr/bin/env python3
"""Regenerates /verif/MANIFEST.json from the table below (kept in one place so it is always valid)."""
import json, os
V = os.path.dirname(os.path.dirname(os.path.abspath(__file__)))
TRUST = ("Trusted: nightly rustc MIR as a faithful rendering of the built code, the mir2c translator, the model library "
         "(SC atomics, test-and-set locks, one-token parker, bounded containers with solver-chosen iteration order), CBMC 6.11 + CaDiCaL. ")
CLAIMS = {
 "C15": dict(
    text="Bounded model checking of the production cursor/frontier functions (MIR of cursor.rs, context.rs translated to C, "
         "CBMC threads): all interleavings and all start states within n<=3..4 txs, 3-4 threads, <=2-3 CAS retries. Decides "
         "reissue-after-rewind, limit safety and frontier safety/catch-up; the timestamp clause is decided in C02's finality harnesses.",
    note=TRUST + "Sequential consistency only (weak-memory behaviours of the declared orderings are outside the claim); "
         "schedules needing more CAS retries than the bound are outside the claim.",
    design="5/C15"),
}
NA = {}
props = [json.loads(l) for l in open(os.path.join(V, "properties.jsonl"))]
checks, na = [], []
for p in props:
    pid = p["id"]
    if pid in CLAIMS:
        c = CLAIMS[pid]
        checks.append({
            "property_id": pid,
            "quick_cmd": f"./check {pid} quick",
            "thorough_cmd": f"./check {pid} thorough",
            "evidence_file": f"/verif/evidence/{pid}.json",
            "replay_cmd_template": "cat {path}",
            "engine": "mir2c+cbmc" + (c.get("engine_extra", "")),
            "level_claimed": {"category": "model_checking", "text": c["text"], "design_ref": c["design"]},
            "level_note": c["note"],
            "technique": c.get("technique", "symbolic execution of the real MIR (translated to C) + SAT-based bounded model checking (CBMC) over all inputs and interleavings within stated bounds"),
        })
    else:
        na.append({"property_id": pid, "reason": NA.get(pid, "check not built yet in this round (planned: solver-based kernel harnesses, see DESIGN.md section 5); not claimed")})
m = {
 "version": 1,
 "setup_cmd": "./setup.sh",
 "hooks": {"guard": "--cfg galxe_grevm_verif", "enable": "not needed by the encodings: MIR is dumped with the guard off (production code)",
           "baseline_off_cmd": "cd /repo && cargo test --workspace --no-fail-fast --offline", "source_commits": [], "add_only": True},
 "engines": [{"name": "mir2c+cbmc", "path": "/verif/mir2c", "serves_properties": [c["property_id"] for c in checks],
              "kind_free_text": "nightly MIR dump of /repo -> pointer-free C (translator + model library) -> CBMC 6.11 bounded model checking with native threads"}],
 "checks": checks,
 "not_applicable": na,
 "notes": "exit 0 = decided, holds within bounds; exit 1 = VIOLATION; exit 2 = inconclusive (translation gap, bound exceeded, solver limit) and is never reported as a pass.",
}
json.dump(m, open(os.path.join(V, "MANIFEST.json"), "w"), indent=1)
print("claimed:", [c["property_id"] for c in checks])
