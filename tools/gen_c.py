#!/usr/bin/env python3
"""tools/gen_c.py <PID> <harness> [tier] -> writes /tmp/gen_<PID>_<harness>.c (translation only, no solver)"""
import sys, os, importlib
V = os.path.dirname(os.path.dirname(os.path.abspath(__file__)))
sys.path.insert(0, V + "/mir2c"); sys.path.insert(0, V + "/checks")
import run, srcdefs, translate
pid, name = sys.argv[1], sys.argv[2]
tier = sys.argv[3] if len(sys.argv) > 3 else "quick"
mir, srcp, h = run.prepare_mir()
mod = importlib.import_module(pid.lower())
spec = [s for s in mod.specs(tier) if s.name == name][0]
cfg = dict(noops=[r"metrics", r"tracing", r"ExecuteMetricsCollector", r"Histogram"], cap=3); cfg.update(spec.cfg)
if cfg.get("extra_mir_pkgs"):
    cfg["extra_mir"] = [open(run.prepare_extra_mir(p_)).read() for p_ in cfg["extra_mir_pkgs"]]
tr = translate.Translator(mir, srcdefs.Sources(srcp, extra_roots=spec.cfg.get("extra_src", [])), cfg)
H = spec.build(tr)
out = f"/tmp/gen_{pid}_{name}.c"
open(out, "w").write(H.render())
print(out, "unwind", spec.unwind)
