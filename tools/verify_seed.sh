#!/bin/bash
# usage: verify_seed.sh <worktree> <demo-test-filter>
# Confirms in the scratch worktree: (1) patch only -> full suite passes, (2) patch+demo -> demo fails, (3) demo only -> demo passes
set -u
WT=$1; FILTER=$2
cd $WT || exit 9
export CARGO_NET_OFFLINE=true
git reset -q --hard HEAD; git clean -fdq -e SEEDED -e target
git apply SEEDED/patch.diff || { echo "patch does not apply"; exit 9; }
echo "== (1) suite with patch only"; cargo test --workspace --no-fail-fast --offline 2>&1 | grep -E "^test result|FAILED|failed" | head -8
git apply SEEDED/demo.diff || { echo "demo does not apply on top of patch"; exit 9; }
echo "== (2) demo with patch (expect FAIL)"; cargo test --offline $FILTER 2>&1 | grep -E "^test result|panicked|FAILED" | head -6
git reset -q --hard HEAD; git clean -fdq -e SEEDED -e target
git apply SEEDED/demo.diff || { echo "demo does not apply alone"; exit 9; }
echo "== (3) demo without patch (expect ok)"; cargo test --offline $FILTER 2>&1 | grep -E "^test result|panicked|FAILED" | head -6
git reset -q --hard HEAD; git clean -fdq -e SEEDED -e target
