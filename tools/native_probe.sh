#!/bin/bash
# usage: native_probe.sh <probe.rs> <file-in-repo-to-append-to> <test-filter>
# Runs a native reproduction against a scratch copy of /repo's CURRENT working tree (never edits /repo). exit 0 = test passed.
PROBE=$1; TARGET=$2; FILTER=$3
SCR=$(mktemp -d /tmp/verif_native.XXXXXX)
rsync -a --exclude .git --exclude target /repo/ $SCR/
mkdir -p /verif/.cache/target-native
cat $PROBE >> $SCR/$TARGET
cd $SCR && CARGO_NET_OFFLINE=true CARGO_TARGET_DIR=/verif/.cache/target-native cargo test --offline --lib $FILTER 2>&1 | grep -E "^test |test result|panicked|error(\[|:)" | head -12
rc=${PIPESTATUS[0]}
rm -rf $SCR
exit $rc
