#!/bin/bash
# usage: try_seed.sh <seed-dir> <PID> [tier] [extra run.py args]  -- applies the seeded change to /repo, runs the check, reverts
# (the revert runs from a trap so that a closed pipe / interrupt cannot leave /repo modified)
SD=$1; PID=$2; TIER=${3:-quick}; shift 3 2>/dev/null
trap 'git -C /repo checkout -- .' EXIT
trap '' PIPE
cd /repo && git apply $SD/patch.diff || exit 9
cd /verif && python3 checks/run.py $PID --tier $TIER "$@" 2>&1 | grep -E "VIOLATION|KNOWN|INCONCLUSIVE|OK:|violation" | cut -c1-260
echo "exit=${PIPESTATUS[0]}"
