#!/bin/bash
# usage: tools/run_all.sh [tier] [jobs]   -- runs every registered check of the tier, prints one summary line per property
TIER=${1:-quick}; JOBS=${2:-3}
cd /verif
mkdir -p .work/runall
ls evidence >/dev/null 2>&1
printf "%s\n" C17 C14 C12 C11 C07 C13 C10 C16 C15 C02 C03 C04 C05 C06 C08 C09 C01 | xargs -P $JOBS -I{} sh -c "./check {} $TIER > .work/runall/{}.log 2>&1; echo {} exit=\$? \$(grep -E '^\[{}\] (OK|VIOLATION|INCONCLUSIVE)' .work/runall/{}.log | tail -1)"
